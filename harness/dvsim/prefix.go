package dvsim

import (
	"fmt"
	"sort"
	"strings"
	"time"

	"github.com/named-data/ndnd/dv/config"
	"github.com/named-data/ndnd/dv/table"
	enc "github.com/named-data/ndnd/std/encoding"
	"github.com/named-data/ndnd/std/ndn"
	mgmt "github.com/named-data/ndnd/std/ndn/mgmt_2022"
	spec "github.com/named-data/ndnd/std/ndn/spec_2022"
	"github.com/named-data/ndnd/std/utils"
	"verif/shim/vsched"
)

// ---------------------------------------------------------------------------------------------
// Prefix events (C19)

// notePub records the announced set of router i under its current prefix-table sequence number
// (publisher model of C19 part B). The model is read from the publisher's own table right after
// the publishing call returned; what it is compared with is what OTHER routers reconstruct.
func (s *Sim) notePub(i int) {
	n := s.Nodes[i]
	routers, _, _ := n.DV.VerifPfx().VerifDump()
	for _, r := range routers {
		if r.Name.Equal(n.Name) {
			n.PubSets[r.Latest] = append([]string{}, r.Prefixes...)
			n.PubSeq = r.Latest
		}
	}
}

// Readvertise sends the NLSR-style readvertise command Interest (register = announce,
// unregister = withdraw) for prefix p to router r's real handler.
func (s *Sim) Readvertise(r int, p string, register bool) {
	name, err := enc.NameFromStr(p)
	if err != nil {
		panic(err)
	}
	params := &mgmt.ControlParameters{Val: &mgmt.ControlArgs{Name: name}}
	verb := "register"
	if !register {
		verb = "unregister"
	}
	iname := enc.Name{
		enc.NewStringComponent(enc.TypeGenericNameComponent, "localhost"),
		enc.NewStringComponent(enc.TypeGenericNameComponent, "nlsr"),
		enc.NewStringComponent(enc.TypeGenericNameComponent, "rib"),
		enc.NewStringComponent(enc.TypeGenericNameComponent, verb),
		enc.NewBytesComponent(enc.TypeGenericNameComponent, params.Encode().Join()),
		enc.NewStringComponent(enc.TypeGenericNameComponent, "sig"),
	}
	interest, err := spec.Spec{}.MakeInterest(iname, &ndn.InterestConfig{Lifetime: utils.IdPtr(4 * time.Second)}, nil, nil)
	if err != nil {
		panic(err)
	}
	x := &Expressed{From: r, Interest: interest, Name: interest.FinalName, Target: -1}
	reply := s.deliverInterest(r, x, 1)
	if reply == nil {
		s.Problems = append(s.Problems, fmt.Sprintf("readvertise %s %s at r%d: no reply", verb, p, r))
	}
	s.notePub(r)
}

// Reachable reports whether j can be reached from i over live links.
func (s *Sim) Reachable(i, j int) bool {
	live := map[[2]int]bool{}
	for e := range s.Live {
		if s.Nodes[e[0]].Up && s.Nodes[e[1]].Up {
			live[e] = true
		}
	}
	return Distances(s.G.N, live, s.UpVec(), i)[j] >= 0
}

// PfxSyncFrom delivers router j's current prefix-sync state vector (a real Sync Interest built by
// j's SvSync) to router i's SvSync.
func (s *Sim) PfxSyncFrom(i, j int) {
	old := vsched.SetContext(fmt.Sprintf("r%d", j))
	s.Nodes[j].DV.VerifPfxSvs().VerifSendSyncInterest()
	vsched.SetContext(old)
	s.RunTasks()
	got := s.takeOutbox(j, func(x *Expressed) bool { return x.Kind == KPfxSync })
	if len(got) == 0 {
		s.Problems = append(s.Problems, fmt.Sprintf("r%d produced no prefix sync Interest", j))
		return
	}
	x := got[len(got)-1]
	interest, _, err := spec.Spec{}.ReadInterest(enc.NewBufferReader(x.Interest.Wire.Join()))
	if err != nil {
		s.Problems = append(s.Problems, fmt.Sprintf("prefix sync Interest of r%d does not parse: %v", j, err))
		return
	}
	old = vsched.SetContext(fmt.Sprintf("r%d", i))
	s.Nodes[i].DV.VerifPfxSvs().VerifOnSyncInterest(interest)
	vsched.SetContext(old)
	s.RunTasks()
}

// PfxSync lets router i hear the current state vector of every router it can reach.
func (s *Sim) PfxSync(i int) {
	for j := range s.Nodes {
		if j != i && s.Nodes[j].Up && s.Reachable(i, j) {
			s.PfxSyncFrom(i, j)
		}
	}
}

// PfxTargets lists the routers for which router i has a parked prefix-data fetch, ascending. (The
// order in which the real code expresses several fetches follows Go map iteration and is therefore
// not part of any event's identity.)
func (s *Sim) PfxTargets(i int) []int {
	set := map[int]bool{}
	for _, x := range s.Parked(i, KPfxData) {
		set[x.Target] = true
	}
	out := make([]int, 0, len(set))
	for d := range set {
		out = append(out, d)
	}
	sort.Ints(out)
	return out
}

// PfxFetchStep resolves router i's parked prefix-data fetch addressed to router d: Data from d's
// repo if d is reachable and has it (and fail is false), a timeout otherwise.
func (s *Sim) PfxFetchStep(i, d int, fail bool) bool {
	var x *Expressed
	for _, y := range s.Parked(i, KPfxData) {
		if y.Target == d {
			x = y
			break
		}
	}
	if x == nil {
		return false
	}
	s.removeParked(x)
	if fail || d < 0 || !s.Nodes[d].Up || !s.Reachable(i, d) {
		s.deliverFailure(x, ndn.InterestResultTimeout)
		return true
	}
	reply := s.deliverInterest(d, x, 1)
	if reply == nil {
		s.deliverFailure(x, ndn.InterestResultTimeout)
		return true
	}
	s.deliverData(x, reply)
	return true
}

// ---------------------------------------------------------------------------------------------
// C19 oracles

// hopChoice is one legal (best, second-best) pair of next hops of a RIB entry.
type hopChoice struct {
	nh   [2]uint64
	cost [2]uint64 // cost[1] == infinity: no finite second-best hop
}

// legalHops derives, from the per-neighbour costs of a RIB entry ALONE (not from the entry's stored
// nextHop/lowest fields), every pair the property allows: the best next hop is a neighbour with the
// lowest finite cost, the second-best a different neighbour with the lowest remaining finite cost.
// Where costs tie the property leaves the choice open, so every tied neighbour is legal.
func legalHops(e table.VerifRibEntry) []hopChoice {
	type nc struct{ h, c uint64 }
	var fin []nc
	for h, c := range e.Costs {
		if c < config.CostInfinity {
			fin = append(fin, nc{h, c})
		}
	}
	if len(fin) == 0 {
		return nil
	}
	sort.Slice(fin, func(a, b int) bool {
		if fin[a].c != fin[b].c {
			return fin[a].c < fin[b].c
		}
		return fin[a].h < fin[b].h
	})
	c1 := fin[0].c
	var s1, rest []nc
	for _, x := range fin {
		if x.c == c1 {
			s1 = append(s1, x)
		} else {
			rest = append(rest, x)
		}
	}
	var out []hopChoice
	if len(s1) >= 2 {
		for a := 0; a < len(s1); a++ {
			for b := a + 1; b < len(s1); b++ {
				out = append(out, hopChoice{[2]uint64{s1[a].h, s1[b].h}, [2]uint64{c1, c1}})
			}
		}
		return out
	}
	if len(rest) == 0 {
		return []hopChoice{{[2]uint64{s1[0].h, 0}, [2]uint64{c1, config.CostInfinity}}}
	}
	for _, x := range rest {
		if x.c == rest[0].c {
			out = append(out, hopChoice{[2]uint64{s1[0].h, x.h}, [2]uint64{c1, x.c}})
		}
	}
	return out
}

// DesiredRoutes is the from-scratch computation the property describes, from router i's CURRENT
// tables: for every reachable remote router d (a finite per-neighbour cost exists), for d's own
// routing prefix and every prefix d is currently known to announce, the faces of d's best and
// finite second-best next hops, each face at the lowest such cost. It returns every table that
// results from a legal choice among tied next hops (capped; the first one follows the entry's stored
// next hops when those are legal). Next hops without a neighbour entry / face are left out: the
// property does not speak about those.
func (sn *Snap) DesiredRoutes(i int) []map[RouteKey]uint64 {
	s := sn.s
	n := s.Nodes[i]
	face := map[uint64]uint64{}
	for _, v := range sn.nb[i] {
		face[v.NameH] = v.FaceId
	}
	pfx := map[uint64][]string{}
	routers, _, _ := n.DV.VerifPfx().VerifDump()
	for _, r := range routers {
		pfx[r.Name.Hash()] = r.Prefixes
	}
	type dest struct {
		names   []string
		choices []hopChoice
	}
	var dests []dest
	combos := 1
	for _, e := range sn.rib[i] {
		if s.IdxH(e.NameH) == i {
			continue
		}
		ch := legalHops(e)
		if len(ch) == 0 {
			continue
		}
		// the stored pair first, if legal
		for k, c := range ch {
			if (c.nh[0] == e.NextHop1 && (c.nh[1] == e.NextHop2 || c.cost[1] >= config.CostInfinity)) || (c.nh[0] == e.NextHop2 && c.nh[1] == e.NextHop1) {
				ch[0], ch[k] = ch[k], ch[0]
				break
			}
		}
		if combos*len(ch) > 256 {
			ch = ch[:1]
		}
		combos *= len(ch)
		dests = append(dests, dest{append([]string{append(e.Name.Clone(), dvSuffix).String()}, pfx[e.NameH]...), ch})
	}
	var out []map[RouteKey]uint64
	idx := make([]int, len(dests))
	for {
		want := map[RouteKey]uint64{}
		for di, d := range dests {
			c := d.choices[idx[di]]
			for k := 0; k < 2; k++ {
				if c.cost[k] >= config.CostInfinity {
					continue
				}
				f, ok := face[c.nh[k]]
				if !ok || f == 0 {
					continue
				}
				for _, nm := range d.names {
					key := RouteKey{nm, f}
					if old, ok := want[key]; !ok || c.cost[k] < old {
						want[key] = c.cost[k]
					}
				}
			}
		}
		out = append(out, want)
		// odometer
		di := len(dests) - 1
		for ; di >= 0; di-- {
			idx[di]++
			if idx[di] < len(dests[di].choices) {
				break
			}
			idx[di] = 0
		}
		if di < 0 {
			break
		}
	}
	return out
}

// DVName reports whether a route name belongs to the class the property speaks about: a remote
// router's routing prefix (<router>/32=DV) or a prefix of the announced-prefix universe.
func (s *Sim) DVName(name string) bool {
	if s.Universe[name] {
		return true
	}
	for _, n := range s.Nodes {
		if name == n.NameStr+"/32=DV" {
			return true
		}
	}
	return false
}

func routeStr(m map[RouteKey]uint64) string {
	x := make([]string, 0, len(m))
	for k, c := range m {
		x = append(x, fmt.Sprintf("%s@f%d=%d", k.Name, k.Face, c))
	}
	sort.Strings(x)
	return strings.Join(x, " ")
}

// CheckMirror is C19.mirror (+ C19.cmd): the reference route table obtained by replaying every
// rib register/unregister command drained so far must equal the from-scratch computation.
func (sn *Snap) CheckMirror() []Finding {
	s := sn.s
	var out []Finding
	for i, n := range s.Nodes {
		if !n.Up {
			continue
		}
		for _, p := range n.CmdProblems {
			out = append(out, Finding{"C19.cmd", "malformed management command", fmt.Sprintf("r%d: %s", i, p)})
		}
		have := map[RouteKey]uint64{}
		for k, c := range n.Routes {
			if s.DVName(k.Name) {
				have[k] = c
			}
		}
		wants := sn.DesiredRoutes(i)
		hs, ok := routeStr(have), false
		for _, w := range wants {
			if routeStr(w) == hs {
				ok = true
				break
			}
		}
		if ok {
			continue
		}
		want := wants[0] // report against the choice the RIB entry itself stores
		for k, c := range want {
			hc, ok := have[k]
			switch {
			case !ok:
				out = append(out, Finding{"C19.mirror", "route prescribed by the tables is not registered",
					fmt.Sprintf("r%d: tables prescribe %s via face %d cost %d, not registered; registered {%s} prescribed {%s}", i, k.Name, k.Face, c, routeStr(have), routeStr(want))})
			case hc != c:
				out = append(out, Finding{"C19.mirror", "route registered with a cost other than the lowest prescribed cost",
					fmt.Sprintf("r%d: %s via face %d registered with cost %d, tables prescribe %d; registered {%s} prescribed {%s}", i, k.Name, k.Face, hc, c, routeStr(have), routeStr(want))})
			}
		}
		for k, c := range have {
			if _, ok := want[k]; !ok {
				out = append(out, Finding{"C19.mirror", "stale route: registered but not prescribed by the tables",
					fmt.Sprintf("r%d: %s via face %d cost %d is registered but the tables prescribe {%s}; registered {%s}", i, k.Name, k.Face, c, routeStr(want), routeStr(have))})
			}
		}
	}
	return out
}

// CheckLog is C19.log: what router i has reconstructed for router d after consuming d's log up
// to sequence number Known must be d's announced set as of that sequence number.
func (sn *Snap) CheckLog() []Finding {
	s := sn.s
	var out []Finding
	for i, n := range s.Nodes {
		if !n.Up {
			continue
		}
		routers, _, _ := n.DV.VerifPfx().VerifDump()
		for _, r := range routers {
			d := s.Idx(r.Name)
			if d < 0 || d == i {
				continue
			}
			if r.Known == 0 {
				if len(r.Prefixes) > 0 {
					out = append(out, Finding{"C19.log", "prefixes reconstructed before anything of the log was consumed",
						fmt.Sprintf("r%d holds %v for r%d with Known=0", i, r.Prefixes, d)})
				}
				continue
			}
			want, ok := s.Nodes[d].PubSets[r.Known]
			if !ok {
				out = append(out, Finding{"C19.log", "peer claims a log position the publisher never published",
					fmt.Sprintf("r%d has Known=%d for r%d, which never published that sequence number (current %d)", i, r.Known, d, s.Nodes[d].PubSeq)})
				continue
			}
			if strings.Join(want, ",") != strings.Join(r.Prefixes, ",") {
				out = append(out, Finding{"C19.log", "reconstructed prefix set differs from the publisher's announced set at that log position",
					fmt.Sprintf("r%d reconstructed %v for r%d at sequence %d (publisher now at %d); the publisher's announced set at %d was %v", i, r.Prefixes, d, r.Known, s.Nodes[d].PubSeq, r.Known, want)})
			}
		}
	}
	return out
}

// PfxSettled reports whether every up router has consumed the whole log of every router it can
// reach and has in its RIB.
func (s *Sim) PfxSettled() (bool, string) {
	for i, n := range s.Nodes {
		if !n.Up {
			continue
		}
		known := map[int]uint64{}
		routers, _, _ := n.DV.VerifPfx().VerifDump()
		for _, r := range routers {
			known[s.Idx(r.Name)] = r.Known
		}
		for d, m := range s.Nodes {
			if d == i || !m.Up || !s.Reachable(i, d) || !n.DV.VerifRib().Has(m.Name) {
				continue
			}
			if known[d] != m.PubSeq {
				return false, fmt.Sprintf("r%d has consumed r%d's log up to %d, publisher is at %d", i, d, known[d], m.PubSeq)
			}
		}
	}
	return true, ""
}

// CheckProgress is C19.progress: with no further publisher operation, repeated sync + fetch steps
// must bring every peer to the end of every reachable publisher's log. Destroys the state.
func (s *Sim) CheckProgress(maxSteps int) []Finding {
	s.RunTimers()
	steps := 0
	for round := 0; round < 4; round++ {
		for i, n := range s.Nodes {
			if n.Up {
				s.PfxSync(i)
			}
		}
		for progress := true; progress && steps < maxSteps; {
			progress = false
			for i, n := range s.Nodes {
				if !n.Up {
					continue
				}
				for _, d := range s.PfxTargets(i) {
					if s.PfxFetchStep(i, d, false) {
						progress = true
						steps++
					}
				}
			}
		}
		s.endOp()
		if ok, _ := s.PfxSettled(); ok {
			break
		}
	}
	var out []Finding
	if ok, why := s.PfxSettled(); !ok {
		out = append(out, Finding{"C19.progress", "prefix log fetch does not reach the end of the publisher's log",
			fmt.Sprintf("after 4 sync rounds and %d fetch steps with no further publisher operation: %s", steps, why)})
	}
	sn := s.Snap()
	out = append(out, sn.CheckLog()...)
	return out
}

// ---------------------------------------------------------------------------------------------
// Canonical form of the prefix / FIB part of the state

func gap(cur, known uint64) string {
	switch {
	case known == 0:
		return "none"
	case known > cur:
		return "ahead"
	case cur-known > 100:
		return ">100"
	}
	return fmt.Sprint(cur - known)
}

// CanonPrefix: per router the prefix table (log positions as distances to the publisher's
// current sequence number, saturated beyond the snapshot threshold), the installed entries, the
// reference route table; per publisher the announced set and the part of its log some peer may
// still fetch op by op.
func (sn *Snap) CanonPrefix() string {
	s := sn.s
	var b strings.Builder
	minKnown := make([]uint64, s.G.N)
	for d, m := range s.Nodes {
		minKnown[d] = m.PubSeq
	}
	for i, n := range s.Nodes {
		if !n.Up {
			continue
		}
		fmt.Fprintf(&b, "\n[r%d pfx]", i)
		routers, snapAt, _ := n.DV.VerifPfx().VerifDump()
		for _, r := range routers {
			d := s.Idx(r.Name)
			if d < 0 {
				continue
			}
			if d == i {
				fmt.Fprintf(&b, " me{%s snap-%s}", strings.Join(r.Prefixes, ","), gap(r.Latest, snapAt))
				continue
			}
			cur := s.Nodes[d].PubSeq
			f := ""
			if r.Fetching {
				f = " fetching"
			}
			fmt.Fprintf(&b, " r%d{known-%s latest-%s%s %s}", d, gap(cur, r.Known), gap(cur, r.Latest), f, strings.Join(r.Prefixes, ","))
			if r.Known != 0 && r.Known <= cur && cur-r.Known <= 100 && r.Known < minKnown[d] {
				minKnown[d] = r.Known
			}
			if sa := s.Nodes[d].snapAt(); sa < minKnown[d] {
				minKnown[d] = sa
			}
		}
		for _, r := range n.DV.VerifFib().VerifDump() {
			es := make([]string, 0, len(r.Entries))
			for _, e := range r.Entries {
				es = append(es, fmt.Sprintf("f%d:%d", e.FaceId, e.Cost))
			}
			sort.Strings(es)
			fmt.Fprintf(&b, " F(%s %s)", r.Name, strings.Join(es, ","))
		}
		dv := map[RouteKey]uint64{}
		for k, c := range n.Routes {
			if s.DVName(k.Name) {
				dv[k] = c
			}
		}
		fmt.Fprintf(&b, " routes{%s}", routeStr(dv))
		if n.Eng.failIn >= 0 || n.Eng.fails > 0 || len(n.Eng.rejected) > 0 {
			fmt.Fprintf(&b, " mgmtfail{armed %d used %d pending retry %v}", n.Eng.failIn, n.Eng.fails, n.Eng.rejected)
		}
		if len(n.CmdProblems) > 0 {
			fmt.Fprintf(&b, " cmdproblems=%d", len(n.CmdProblems))
		}
		var pk []string
		for _, x := range n.Eng.outbox {
			if x.Kind == KPfxData {
				if x.Snap {
					pk = append(pk, fmt.Sprintf(" P(pfx r%d snap)", x.Target))
				} else {
					pk = append(pk, fmt.Sprintf(" P(pfx r%d -%s)", x.Target, gap(s.Nodes[x.Target].PubSeq, x.Seq)))
				}
			}
		}
		sort.Strings(pk)
		b.WriteString(strings.Join(pk, ""))
	}
	if s.TimersPending() {
		b.WriteString("\nTIMERS pending")
	}
	for d, m := range s.Nodes {
		if !m.Up {
			continue
		}
		fmt.Fprintf(&b, "\n[r%d log]", d)
		for q := minKnown[d] + 1; q <= m.PubSeq && q > 0; q++ {
			fmt.Fprintf(&b, " {%s}", strings.Join(m.PubSets[q], ","))
		}
		fmt.Fprintf(&b, " now{%s}", strings.Join(m.PubSets[m.PubSeq], ","))
	}
	return b.String()
}

func (n *Node) snapAt() uint64 {
	_, sa, _ := n.DV.VerifPfx().VerifDump()
	return sa
}
