package dvsim

import (
	"os"
	"strings"
)

// TwinAudit audits the canonical form while the search runs. The search de-duplicates on the
// canonical state, so it expands ONE history per canonical state and trusts that every other
// history ending in the same canonical state has the same futures. The audit takes pairs of
// different histories that end in the same canonical state ("twins": the first history by which this
// worker process reached the state and a later one), executes EVERY operation that is enabled there
// - deviations included, whatever the deviation budget of the search - from both, and writes the
// canonical successor of each to the trace ("A" lines). The graph analysis compares them (and the
// "E" lines of the search itself) and stops the check with a CHECK-ERROR if the same canonical state
// has different successors for the same operation: the canonical form forgets something that
// matters, or contains something (in a successor) that is not a function of the canonical
// predecessor.
//
// Which states are audited is a deterministic function of the state (hash modulo Every) and of the
// order in which the worker meets histories; nothing is sampled at random.
type TwinAudit struct {
	M     *Machine
	T     *Trace
	Ops   func(*Sim) []string // every operation enabled in a state, deterministic order
	Every int                 // audit the states with hash % Every == 0 (<= 1: all)

	first map[string][]string
	done  map[string]bool
}

func (a *TwinAudit) pick(h string) bool {
	if a.Every <= 1 {
		return true
	}
	v := 0
	for _, c := range h[:6] {
		v = v*16 + strings.IndexRune("0123456789abcdef", c)
	}
	return v%a.Every == 0
}

// Visit is called with every successor state the worker computes (l: its history, canon: its
// canonical form). It may reposition the live simulation: the caller must not rely on l.Sim()
// still being materialised afterwards.
func (a *TwinAudit) Visit(l *Lazy, canon string) {
	h := a.T.Hash(canon)
	if !a.pick(h) || a.done[h] {
		return
	}
	if a.first == nil {
		a.first, a.done = map[string][]string{}, map[string]bool{}
	}
	f, ok := a.first[h]
	if !ok {
		a.first[h] = append([]string{}, l.Hist...)
		return
	}
	if strings.Join(f, ";") == l.Key() {
		return
	}
	a.done[h] = true
	delete(a.first, h)
	twins := [2][]string{f, append([]string{}, l.Hist...)}
	var ops [2][]string
	for k, hist := range twins {
		t := a.M.New()
		for _, o := range hist {
			t.Do(o)
		}
		s := t.Sim()
		if got := a.T.Hash(s.CanonRouting()); got != h {
			// the history does not lead to the same canonical state when it is executed again: the
			// code under test is not deterministic (reported by the search itself); nothing to audit
			return
		}
		ops[k] = a.Ops(s)
		t.Checkpoint()
	}
	hk := [2]string{a.T.Hash(strings.Join(twins[0], ";"))[:8], a.T.Hash(strings.Join(twins[1], ";"))[:8]}
	// the set of enabled operations is part of the future
	for k := range twins {
		a.T.line("A", h, "(enabled operations)", hk[k], a.T.Hash(strings.Join(ops[k], " "))[:12])
	}
	if strings.Join(ops[0], " ") != strings.Join(ops[1], " ") {
		return
	}
	for _, op := range ops[0] {
		for k, hist := range twins {
			t := a.M.New()
			for _, o := range hist {
				t.Do(o)
			}
			t.Do(op)
			c := t.Sim().CanonRouting()
			f := []string{"A", h, op, hk[k], a.T.Hash(relRe.ReplaceAllString(c, "N($1 f"))[:12]}
			if os.Getenv("VERIF_DV_TRACEDEBUG") != "" {
				f = append(f, strings.Join(hist, ";"), c)
			}
			a.T.line(f...)
		}
	}
}
