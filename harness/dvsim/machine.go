package dvsim

import (
	"crypto/sha256"
	"encoding/hex"
	"fmt"
	"os"
	"path/filepath"
	"sort"
	"strings"

	"github.com/named-data/ndnd/dv/dv"
)

// Machine gives the explore engine cheap successors. The engine identifies a state by its
// operation history and asks for "fresh instance + replay + one more operation" for every
// successor; re-executing d events for each of them is what dominates the cost. A Machine keeps
// ONE live simulation per worker process plus saved table states (Sim.Save) of histories it has
// materialised; an instance (Lazy) is just a history until somebody needs its state, at which
// point the nearest saved prefix is restored into the live simulation and the remaining
// operations are executed by the real code.
//
// Soundness of the shortcut is checked at run time: the first ValidateFirst and then every
// ValidateEvery-th materialisation is ALSO computed by plain re-execution from a fresh NewSim in
// a second simulation object and the two FullDump()s must be identical, else the worker aborts
// (CHECK-ERROR, never a violation).
type Machine struct {
	G     Graph
	Init  func(s *Sim)            // run once after NewSim (e.g. converge); part of the root state
	Apply func(s *Sim, op string) // op interpreter (must call s.EndOp())

	ValidateFirst, ValidateEvery int
	Opt                          Options // simulation options (router names)
	// Tag "<check id>|<config>" names the marker files by which a worker tells the others (and the
	// parent) that the restore shortcut was abandoned for this configuration.
	Tag string

	live  *Sim
	owner *Lazy
	cache map[string]*SimState
	fifo  []string
	cap   int
	count int
	Stats struct{ Restores, Replays, OpsRun, Validations int }
	// Nondet collects histories whose plain re-execution is not reproducible (see Lazy.Sim)
	Nondet  []string
	noCache bool
}

func NewMachine(g Graph, init func(*Sim), apply func(*Sim, string)) *Machine {
	return NewMachineOpt(g, init, apply, Options{}, "")
}

func NewMachineOpt(g Graph, init func(*Sim), apply func(*Sim, string), opt Options, tag string) *Machine {
	m := &Machine{G: g, Init: init, Apply: apply, Opt: opt, Tag: tag, ValidateFirst: 25, ValidateEvery: 400, cache: map[string]*SimState{}, cap: 4000}
	if os.Getenv("VERIF_DV_NOCACHE") != "" {
		m.noCache = true // plain re-execution for everything (debugging / differential runs)
	}
	// The save/restore hooks copy the fields the router and table structs have in the tree they
	// were written for. If a struct has gained or lost a field, they cannot be trusted: plain
	// re-execution from the start, in every worker alike.
	if sum := sha256.Sum256([]byte(dv.VerifFieldSignature())); hex.EncodeToString(sum[:16]) != knownFieldSignature && !m.noCache {
		fmt.Fprintf(os.Stderr, "dvsim: router/table struct fields differ from the ones the save/restore hooks cover; plain re-execution for %q\n", tag)
		m.live = m.fresh()
		m.fallback()
		return m
	}
	m.live = m.fresh()
	m.put("", m.live.Save())
	return m
}

func (m *Machine) fresh() *Sim {
	s := NewSimOpt(m.G, m.Opt)
	if m.Init != nil {
		m.Init(s)
	}
	return s
}

func (m *Machine) put(key string, st *SimState) {
	if _, ok := m.cache[key]; ok {
		return
	}
	if len(m.fifo) >= m.cap {
		// evict the oldest non-root entry
		delete(m.cache, m.fifo[0])
		m.fifo = m.fifo[1:]
	}
	m.cache[key] = st
	if key != "" {
		m.fifo = append(m.fifo, key)
	}
}

// knownFieldSignature is sha256[:16] of dv.VerifFieldSignature() on the tree the hooks were written for.
const knownFieldSignature = "c12943fffe8e457b96a63dd71e16c2a1"

// Lazy is an instance: a history, materialised on demand.
type Lazy struct {
	m    *Machine
	Hist []string
	pos  int // number of Hist entries applied to m.live (valid while m.owner == this)
	// Canon caches the canonical form of the state after Hist ("" = not computed); owned by the harness.
	Canon string
}

func (m *Machine) New() *Lazy { return &Lazy{m: m} }

func (l *Lazy) Key() string { return strings.Join(l.Hist, ";") }

// Do appends an operation; nothing is executed yet.
func (l *Lazy) Do(op string) {
	l.Hist = append(l.Hist, op)
	l.Canon = ""
}

// Sim returns the live simulation positioned after the whole history.
func (l *Lazy) Sim() *Sim {
	m := l.m
	if m.owner != l {
		// restore the nearest saved prefix
		k := len(l.Hist)
		var st *SimState
		for ; k >= 0; k-- {
			if m.noCache && k > 0 {
				continue
			}
			if s, ok := m.cache[strings.Join(l.Hist[:k], ";")]; ok {
				st = s
				break
			}
		}
		m.count++
		var want string
		validate := !m.noCache && len(l.Hist) > 0 && (m.count <= m.ValidateFirst || (m.ValidateEvery > 0 && m.count%m.ValidateEvery == 0))
		if validate {
			ref := m.fresh()
			for _, op := range l.Hist {
				m.Apply(ref, op)
			}
			want = ref.FullDump()
			ref.Close()
			m.Stats.Validations++
		}
		if !m.noCache && m.fallbackSeen() {
			m.noCache = true
		}
		if m.noCache {
			m.live.Close()
			m.live = m.fresh()
			k = 0
		} else {
			m.live.Restore(st)
		}
		m.Stats.Restores++
		if k < len(l.Hist) {
			m.Stats.Replays++
		}
		m.owner, l.pos = l, k
		l.run()
		if validate {
			if got := m.live.FullDump(); got != want {
				// Either the restore shortcut is wrong, or the code under test is not a function of
				// its history (Go map iteration order leaking into the tables). Decide by plain
				// re-execution alone: if two plain re-executions of the same history differ, it is
				// the latter, which the harness reports as a finding; otherwise the check is broken.
				nondet := false
				for try := 0; try < 80 && !nondet; try++ { // a two-entry Go map iterates in the other order with probability 1/8
					ref := m.fresh()
					for _, op := range l.Hist {
						m.Apply(ref, op)
					}
					nondet = ref.FullDump() != want
					ref.Close()
				}
				if !nondet {
					// The routers carry state that Save/Restore does not cover (e.g. a private field
					// added to a table): the shortcut is unsound for this source tree. Abandon it for
					// this configuration - every state is computed by plain re-execution from now on,
					// slower but sound - and let the oracles judge.
					fmt.Fprintf(os.Stderr, "dvsim: restored state differs from plain re-execution after %v (restored prefix %d); falling back to plain re-execution for %q\n", l.Hist, k, m.Tag)
					m.fallback()
					m.live.Close()
					m.live = m.fresh()
					l.pos = 0
					l.run()
					return m.live
				}
				m.Nondet = append(m.Nondet, fmt.Sprintf("re-executing the history %v twice from fresh routers gives different router states", l.Hist))
				// the plain re-executions clobbered clock and queue: put the live state back
				m.live.Restore(st)
				l.pos = k
				l.run()
			}
		}
		return m.live
	}
	l.run()
	return m.live
}

func (l *Lazy) run() {
	m := l.m
	for l.pos < len(l.Hist) {
		m.Apply(m.live, l.Hist[l.pos])
		l.pos++
		m.Stats.OpsRun++
	}
}

// Probe exercises the restore shortcut on a handful of states BEFORE any request is served: a
// path of up to depth first-enabled operations, then, walking back up, a sibling of every state on
// it (so that older snapshots are restored into router objects that have meanwhile been somewhere
// else). Every one of these materialisations is cross-checked against plain re-execution; if the
// routers carry state the save/restore hooks do not cover, the machine falls back to plain
// re-execution before it has handed out a single state. All workers run the same probe, so they
// agree. enabled lists the operations enabled in a state, in a deterministic order.
func (m *Machine) Probe(enabled func(*Sim) []string, depth int) {
	if m.noCache {
		return
	}
	first, every := m.ValidateFirst, m.ValidateEvery
	m.ValidateFirst, m.ValidateEvery = 1<<30, 0
	defer func() { m.ValidateFirst, m.ValidateEvery, m.count = first, every, 0 }()
	var hist []string
	alts := [][]string{}
	for len(hist) < depth && !m.noCache {
		l := m.New()
		for _, o := range hist {
			l.Do(o)
		}
		ops := enabled(l.Sim())
		l.Checkpoint()
		if len(ops) == 0 {
			break
		}
		alts = append(alts, ops)
		hist = append(hist, ops[0])
	}
	for j := len(alts) - 1; j >= 0 && !m.noCache; j-- {
		for _, alt := range alts[j] {
			if alt == hist[j] {
				continue
			}
			l := m.New()
			for _, o := range hist[:j] {
				l.Do(o)
			}
			l.Do(alt)
			l.Sim()
			l.Checkpoint()
			break
		}
	}
	m.owner = nil
}

// ProbeSafe is Probe for harnesses whose code under test may panic on the probe path (a seeded
// defect): the panic is swallowed here - the search meets the same operations inside its guarded
// Apply and reports it - and the machine starts again from a fresh simulation. It returns the panic
// value ("" if none).
func (m *Machine) ProbeSafe(enabled func(*Sim) []string, depth int) (crash string) {
	defer func() {
		if r := recover(); r != nil {
			crash = fmt.Sprint(r)
			m.owner = nil
			m.cache, m.fifo = map[string]*SimState{}, nil
			m.live = m.fresh() // the old simulation is abandoned in whatever state the panic left it
			if !m.noCache {
				m.put("", m.live.Save())
			}
		}
	}()
	m.Probe(enabled, depth)
	return ""
}

// Checkpoint saves the state after the whole history (if it consists of table contents only) so
// that successors can be computed by restore + one operation. Call it for states that are about to
// be expanded.
func (l *Lazy) Checkpoint() {
	m := l.m
	if m.noCache {
		return
	}
	key := l.Key()
	if _, ok := m.cache[key]; ok {
		return
	}
	if s := l.Sim(); s.Saveable() {
		m.put(key, s.Save())
	}
}

// Invalidate tells the machine that the harness modified the live simulation outside of the
// history (e.g. a destructive closure check): the next user must restore.
func (l *Lazy) Invalidate() {
	if l.m.owner == l {
		l.m.owner = nil
	}
}

// ---------------------------------------------------------------------------------------------
// Fallback markers

func fallbackDir(id string) string {
	b := os.Getenv("VERIF_BUILD_DIR")
	if b == "" {
		b = os.TempDir()
	}
	return filepath.Join(b, "fallback-"+id)
}

// ResetFallbackDir empties the marker directory (parent, before the search).
func ResetFallbackDir(id string) {
	os.RemoveAll(fallbackDir(id))
	os.MkdirAll(fallbackDir(id), 0o755)
}

func (m *Machine) marker() (dir, prefix string) {
	p := strings.SplitN(m.Tag, "|", 2)
	if len(p) != 2 {
		return "", ""
	}
	return fallbackDir(p[0]), strings.NewReplacer(" ", "_", ":", "_", "/", "_", "=", "_", ",", "_").Replace(p[1]) + "."
}

// fallback abandons the restore shortcut in this worker and leaves a marker for the others.
func (m *Machine) fallback() {
	m.noCache = true
	m.cache = map[string]*SimState{}
	m.fifo = nil
	if dir, pre := m.marker(); dir != "" {
		os.MkdirAll(dir, 0o755)
		os.WriteFile(filepath.Join(dir, pre+fmt.Sprint(os.Getpid())), []byte(m.Tag+"\n"), 0o644)
	}
}

func (m *Machine) fallbackSeen() bool {
	dir, pre := m.marker()
	if dir == "" {
		return false
	}
	ms, _ := filepath.Glob(filepath.Join(dir, pre+"*"))
	return len(ms) > 0
}

// FallbackConfigs lists the configurations of check id in which some worker abandoned the restore
// shortcut (parent, after the search).
func FallbackConfigs(id string) []string {
	set := map[string]bool{}
	fs, _ := filepath.Glob(filepath.Join(fallbackDir(id), "*"))
	for _, f := range fs {
		if b, err := os.ReadFile(f); err == nil {
			set[strings.TrimSpace(string(b))] = true
		}
	}
	out := []string{}
	for k := range set {
		out = append(out, k)
	}
	sort.Strings(out)
	return out
}
