package dvsim

import (
	"fmt"
	"os"
	"runtime"
	"strings"
	"time"

	"github.com/named-data/ndnd/dv/config"
	"github.com/named-data/ndnd/dv/dv"
	"github.com/named-data/ndnd/dv/nfdc"
	"github.com/named-data/ndnd/dv/tlv"
	enc "github.com/named-data/ndnd/std/encoding"
	"github.com/named-data/ndnd/std/log"
	"github.com/named-data/ndnd/std/ndn"
	mgmt "github.com/named-data/ndnd/std/ndn/mgmt_2022"
	spec "github.com/named-data/ndnd/std/ndn/spec_2022"
	"verif/shim/vsched"
	"verif/shim/vtime"
)

const Network = "/ndn"

// Node is one simulated router.
type Node struct {
	Idx     int
	NameStr string
	Name    enc.Name
	Cfg     *config.Config
	DV      *dv.Router
	Eng     *Engine
	Up      bool
	Boots   int
	// Booting: the process is in the window of Router.Start between register() and the insertion of
	// its own RIB entry: it answers Interests and hears sync Interests, but its loop (heartbeats,
	// dead checks) has not started (see RouterRestartWindow / FinishBoot)
	Booting bool

	// reference route table: replay of every rib register/unregister drained from the nfdc queue
	Routes map[RouteKey]uint64
	// commands drained after the last operation
	LastCmds []ExecRec
	// malformed commands seen (C19.cmd)
	CmdProblems []string

	// publisher model (C19 part B): announced set after each published sequence number
	PubSets map[uint64][]string
	PubCur  map[string]bool
	PubSeq  uint64 // current prefix-table sequence number of this router
}

type RouteKey struct {
	Name string
	Face uint64
}

// Sim is the whole simulated network.
type Sim struct {
	G     Graph
	Nodes []*Node
	Live  map[[2]int]bool // live links (subset of G.Edges)
	Alt   map[[2]int]bool // directed (i,j): i currently hears j on the alternate face id
	// Passive: directed (i,j): j's regular sync Interests reach i under the passive prefix (i is
	// not configured on j as an explicit neighbour). Static per configuration.
	Passive map[[2]int]bool
	// Parallel: links (i<j) that consist of two parallel faces; successive sync Interests of the
	// neighbour arrive on alternating faces. Static per configuration.
	Parallel map[[2]int]bool
	Opt      Options
	// BootErrors: routers whose start-up (what Router.Start does before its loop) failed
	BootErrors []string
	byName     map[string]int
	byHash     map[uint64]int
	// Universe is the set of application prefixes the harness may announce (C19)
	Universe map[string]bool

	TaskCap int
	// advertisement Data answered by the neighbour but not yet delivered to the requester
	// (delivery deviation Xq / Fd: Data of one neighbour may overtake each other)
	InFlight []*FlightData
	// task-delay deviation (see HoldBefore)
	Held     []*vsched.Task
	HeldDesc string
	// HeldNbr: the neighbour whose advertisement the held tasks were spawned for (set by the harness
	// right after HoldBefore for an exchange with that neighbour; -1: unknown, the canonical form
	// then lists the stored advertisement of every neighbour entry of a router with held tasks)
	HeldNbr  int
	holdSite string
	holdCut  bool
	Problems []string // harness-level anomalies that make the execution unusable (CHECK-ERROR material)
	AdvSeen  []string // advertisement entries with Cost >= infinity seen on the wire or in Rib.Advert()
	// AdvTorn: advertisement Data whose content is the router's advertisement neither as the handler
	// took it nor as it is when the Data leaves (SplitReply)
	AdvTorn []string
	// advPin: rendering of stored advertisements whose memory the harness has overwritten (ReuseWire)
	advPin    map[*tlv.Advertisement][2]string
	TasksRun  int
	Exchanges int
}

var dvSuffix = enc.NewStringComponent(enc.TypeKeywordNameComponent, "DV")

func init() {
	log.SetLevel(log.FatalLevel)
}

// Options of a simulation.
type Options struct {
	// RouterPrefix is the name prefix of the routers (router i is <RouterPrefix>/r<i>); default
	// Network ("/ndn"), i.e. two-component router names.
	RouterPrefix string
	// Network is the network name all routers share (default "/ndn").
	Network string
	// Nested makes every router name an extension of the previous one: r0 = <prefix>/r0,
	// r1 = <prefix>/r0/x1, r2 = <prefix>/r0/x1/x2, ... (names in a prefix relation).
	Nested bool
	// SplitReply: ExchangeQueued / DeliverFlight cut the neighbour's advertDataOnInterest in two where
	// it releases dv.mutex: the advertisement is TAKEN when the fetch arrives and ENCODED, signed and
	// sent only when the Data is delivered, whatever the router did in between (see split.go).
	SplitReply bool
	// ReuseWire: the memory of every advertisement Data is overwritten once the requester's handler
	// and every task it spawned have run (a receive buffer that is used again): the router's tables
	// must own what they keep (see split.go for what the unchanged code legitimately still refers to).
	ReuseWire bool
}

// NewSim builds N fresh routers with default options.
func NewSim(g Graph) *Sim { return NewSimOpt(g, Options{}) }

// NewSimOpt builds N fresh routers. Nothing has been exchanged yet: every router knows only itself.
func NewSimOpt(g Graph, o Options) *Sim {
	if o.Network == "" {
		o.Network = Network
	}
	if o.RouterPrefix == "" {
		o.RouterPrefix = o.Network
	}
	vtime.Reset(true) // timers armed by the code under test (none in the unchanged tree) fire when the clock passes them
	vsched.Reset()
	s := &Sim{G: g, Opt: o, Parallel: map[[2]int]bool{}, Live: map[[2]int]bool{}, Alt: map[[2]int]bool{}, Passive: map[[2]int]bool{}, byName: map[string]int{}, byHash: map[uint64]int{}, Universe: map[string]bool{}, TaskCap: 100000, HeldNbr: -1}
	for _, e := range g.Edges {
		s.Live[e] = true
	}
	for i := 0; i < g.N; i++ {
		n := &Node{Idx: i, NameStr: fmt.Sprintf("%s/r%d", o.RouterPrefix, i)}
		if o.Nested {
			n.NameStr = o.RouterPrefix + "/r0"
			for k := 1; k <= i; k++ {
				n.NameStr += fmt.Sprintf("/x%d", k)
			}
		}
		s.Nodes = append(s.Nodes, n)
		s.byName[n.NameStr] = i
		nm, err := enc.NameFromStr(n.NameStr)
		if err != nil {
			panic(err)
		}
		s.byHash[nm.Hash()] = i
	}
	for i := 0; i < g.N; i++ {
		s.boot(i)
	}
	return s
}

func (s *Sim) boot(i int) { s.bootOpt(i, false) }

// bootOpt starts a fresh process for router i; window: it stops in the boot window (Node.Booting).
func (s *Sim) bootOpt(i int, window bool) {
	n := s.Nodes[i]
	cfg := config.DefaultConfig()
	cfg.Network = s.Opt.Network
	cfg.Router = n.NameStr
	n.Cfg = cfg
	if n.DV != nil {
		n.DV.VerifNfdc().Stop() // previous incarnation's management goroutine
	}
	n.Eng = &Engine{sim: s, idx: i, barrier: make(chan struct{}, 1), failIn: -1}
	old := vsched.SetContext(fmt.Sprintf("r%d", i))
	r, err := dv.NewRouter(cfg, n.Eng)
	if err != nil {
		panic(fmt.Sprintf("NewRouter: %v", err))
	}
	n.DV = r
	// The router's REAL management loop (nfdc.NfdMgmtThread.Start) runs in a real goroutine, as
	// Router.Start would start it; what it hands to Engine.ExecMgmtCmd is what reaches the forwarder.
	go r.VerifNfdc().Start()
	n.Name = cfg.RouterName()
	n.Up = true
	n.Boots++
	n.Routes = map[RouteKey]uint64{}
	if n.PubSets == nil {
		n.PubSets = map[uint64][]string{} // kept across restarts: sequence numbers never repeat
	}
	n.PubCur = map[string]bool{}
	n.Booting = window
	bootErr := error(nil)
	if window {
		bootErr = r.VerifBootRegister()
	} else {
		bootErr = r.VerifBoot()
	}
	if err := bootErr; err != nil {
		// Router.Start would return this error: the router never runs. Recorded, not fatal for the
		// harness: the rest of the network goes on without it.
		s.BootErrors = append(s.BootErrors, fmt.Sprintf("r%d (%s, network %s): %v", i, n.NameStr, s.Opt.Network, err))
	}
	vsched.SetContext(old)
	s.RunTasks()
	n.Eng.outbox = nil
	s.notePub(i)
	s.Drain()
}

// RunTasks runs the queued `go` statements in FIFO order to quiescence.
func (s *Sim) RunTasks() {
	n := 0
	for vsched.Pending() > 0 {
		if s.holdSite != "" && !s.holdCut {
			if ts := vsched.Tasks(); strings.Contains(ts[0].Site, s.holdSite) {
				s.holdCut = true
			}
		}
		if s.holdCut {
			// task-delay deviation: everything still queued in this operation is held back
			s.Held = append(s.Held, vsched.TakeAll()...)
			break
		}
		if n >= s.TaskCap {
			s.Problems = append(s.Problems, fmt.Sprintf("task queue not empty after %d tasks (livelock?)", n))
			vsched.Reset()
			break
		}
		vsched.RunOne(0)
		n++
	}
	s.TasksRun += n
}

// HoldBefore arms the task-delay deviation for the current operation: as soon as the next task to
// run is one that was spawned by a function whose name contains site (e.g.
// "advertDataHandler", which spawns ribUpdate), that task and everything queued behind it or spawned
// later in this operation is held back instead of run. Held tasks stay out of the run queue,
// whatever events follow, until Release. Whether the cut happens and what is held is a function of
// (state before the operation, operation), which is how the canonical state describes it.
// Requires vsched.RecordSites.
func (s *Sim) HoldBefore(site, desc string) {
	s.holdSite, s.holdCut = site, false
	s.HeldNbr = -1
	s.HeldDesc = desc + " from " + s.CanonRouting()
}

// HeldAt reports whether router i has held tasks.
func (s *Sim) HeldAt(i int) bool {
	for _, t := range s.Held {
		if t.Ctx == fmt.Sprintf("r%d", i) {
			return true
		}
	}
	return false
}

// Release puts the held tasks back at the end of the run queue and runs everything to quiescence.
func (s *Sim) Release() {
	vsched.Put(s.Held)
	s.Held, s.HeldDesc = nil, ""
	s.RunTasks()
}

func (s *Sim) Idx(name enc.Name) int { return s.IdxH(name.Hash()) }

// IdxH maps a router-name hash to the router index (-1: not a router of this simulation).
func (s *Sim) IdxH(h uint64) int {
	if i, ok := s.byHash[h]; ok {
		return i
	}
	return -1
}

func (s *Sim) shortH(h uint64) string {
	if h == 0 {
		return "-"
	}
	if i, ok := s.byHash[h]; ok {
		return fmt.Sprintf("r%d", i)
	}
	return fmt.Sprintf("h%x", h)
}

func (s *Sim) short(name string) string {
	if i, ok := s.byName[name]; ok {
		return fmt.Sprintf("r%d", i)
	}
	if name == "" {
		return "-"
	}
	return name
}

func key(i, j int) [2]int {
	if i > j {
		i, j = j, i
	}
	return [2]int{i, j}
}

// LinkLive reports whether the link (i,j) exists, is up and both routers are up.
func (s *Sim) LinkLive(i, j int) bool {
	return s.Live[key(i, j)] && s.Nodes[i].Up && s.Nodes[j].Up
}

// LiveNeighbors returns j with LinkLive(i,j), ascending.
func (s *Sim) LiveNeighbors(i int) []int {
	var out []int
	for j := 0; j < s.G.N; j++ {
		if j != i && s.LinkLive(i, j) {
			out = append(out, j)
		}
	}
	return out
}

func (s *Sim) UpVec() []bool {
	up := make([]bool, s.G.N)
	for i, n := range s.Nodes {
		up[i] = n.Up
	}
	return up
}

// FaceID is the face on which router i hears router j.
func (s *Sim) FaceID(i, j int) uint64 {
	f := uint64(300 + 10*i + j)
	if s.Alt[[2]int{i, j}] {
		f += 1000
	}
	return f
}

// FaceOwner maps a face id of router i back to the neighbour index (or -1).
func (s *Sim) FaceOwner(i int, f uint64) int {
	if f >= 1300 {
		f -= 1000
	}
	if f < 300 {
		return -1
	}
	j := int(f-300) - 10*i
	if j < 0 || j >= s.G.N {
		return -1
	}
	return j
}

// classify fills Kind/Target/Seq of an expressed Interest from its name.
func (s *Sim) classify(x *Expressed) {
	name := x.Name
	cfg := s.Nodes[x.From].Cfg
	switch {
	case cfg.AdvertisementSyncActivePrefix().IsPrefix(name):
		x.Kind = KSyncAct
	case cfg.AdvertisementSyncPassivePrefix().IsPrefix(name):
		x.Kind = KSyncPsv
	case cfg.PrefixTableSyncPrefix().IsPrefix(name):
		x.Kind = KPfxSync
	default:
		for _, n := range s.Nodes {
			if n.Cfg == nil {
				continue
			}
			if n.Cfg.AdvertisementDataPrefix().IsPrefix(name) && len(name) == len(n.Cfg.AdvertisementDataPrefix())+1 {
				x.Kind, x.Target, x.Seq = KAdvData, n.Idx, name[len(name)-1].NumberVal()
				return
			}
			if p := n.Cfg.PrefixTableDataPrefix(); p.IsPrefix(name) && len(name) == len(p)+1 {
				x.Kind, x.Target = KPfxData, n.Idx
				last := name[len(name)-1]
				if last.Typ == enc.TypeKeywordNameComponent && string(last.Val) == "SNAP" {
					x.Snap = true
				} else {
					x.Seq = last.NumberVal()
				}
				return
			}
		}
	}
}

// deliverInterest hands an expressed Interest to router `to` as if it arrived on face `face`,
// runs the spawned tasks, and returns the reply wire (nil if the handler did not reply).
func (s *Sim) deliverInterest(to int, x *Expressed, face uint64) enc.Wire {
	buf := x.Interest.Wire.Join()
	interest, sigCov, err := spec.Spec{}.ReadInterest(enc.NewBufferReader(buf))
	if err != nil {
		s.Problems = append(s.Problems, fmt.Sprintf("expressed Interest %s does not parse: %v", x.Name, err))
		return nil
	}
	n := s.Nodes[to]
	h := n.Eng.match(interest.Name())
	if h == nil {
		return nil // no route / no handler: the Interest is lost
	}
	var reply enc.Wire
	f := face
	deadline := vtime.Now().Add(4 * time.Second)
	if lt := interest.Lifetime(); lt != nil {
		deadline = vtime.Now().Add(*lt)
	}
	old := vsched.SetContext(fmt.Sprintf("r%d", to))
	h(ndn.InterestHandlerArgs{
		Interest: interest, RawInterest: enc.Wire{buf}, SigCovered: sigCov, Deadline: deadline, IncomingFaceId: &f,
		Reply: func(w enc.Wire) error { reply = enc.Wire{w.Join()}; return nil },
	})
	vsched.SetContext(old)
	s.RunTasks()
	return reply
}

// deliverData hands a Data wire to the callback of an expressed Interest and runs the tasks.
func (s *Sim) deliverData(x *Expressed, wire enc.Wire) {
	data, sigCov, err := spec.Spec{}.ReadData(enc.NewWireReader(wire))
	if err != nil {
		s.Problems = append(s.Problems, fmt.Sprintf("reply to %s does not parse as Data: %v", x.Name, err))
		return
	}
	if x.Kind == KAdvData {
		s.inspectAdvert(x.Target, data)
	}
	if x.Cb == nil {
		return
	}
	old := vsched.SetContext(fmt.Sprintf("r%d", x.From))
	x.Cb(ndn.ExpressCallbackArgs{Result: ndn.InterestResultData, Data: data, RawData: wire, SigCovered: sigCov})
	vsched.SetContext(old)
	s.RunTasks()
	if s.Opt.ReuseWire && x.Kind == KAdvData && len(s.Held) == 0 {
		s.reuseWire(x, wire)
	}
}

func (s *Sim) deliverFailure(x *Expressed, res ndn.InterestResult) {
	if x.Cb == nil {
		return
	}
	old := vsched.SetContext(fmt.Sprintf("r%d", x.From))
	x.Cb(ndn.ExpressCallbackArgs{Result: res})
	vsched.SetContext(old)
	s.RunTasks()
}

// inspectAdvert records advertisement entries at or above infinity seen on the wire (C18.adv).
func (s *Sim) inspectAdvert(from int, data ndn.Data) {
	adv, err := tlv.ParseAdvertisement(enc.NewBufferReader(data.Content().Join()), false)
	if err != nil {
		s.Problems = append(s.Problems, fmt.Sprintf("advertisement Data of r%d does not parse: %v", from, err))
		return
	}
	s.checkAdvert(from, adv, "wire")
}

func (s *Sim) checkAdvert(from int, adv *tlv.Advertisement, where string) {
	for _, e := range adv.Entries {
		if e.Cost >= config.CostInfinity {
			d := "?"
			if e.Destination != nil {
				d = s.shortH(e.Destination.Name.Hash())
			}
			s.AdvSeen = append(s.AdvSeen, fmt.Sprintf("r%d advertises %s with Cost=%d (%s)", from, d, e.Cost, where))
		}
	}
}

// takeOutbox removes and returns the expressed Interests of router i matching keep.
func (s *Sim) takeOutbox(i int, match func(*Expressed) bool) []*Expressed {
	var got, rest []*Expressed
	for _, x := range s.Nodes[i].Eng.outbox {
		if match(x) {
			got = append(got, x)
		} else {
			rest = append(rest, x)
		}
	}
	s.Nodes[i].Eng.outbox = rest
	return got
}

// dropEphemeral discards the sync Interests still in the outboxes: they have a lifetime of 1 ms
// (advert sync) / 1 s (prefix sync) and carry nothing but the sender's current state, which the
// explicit Ping / PfxSync events re-create from the sender's state at delivery time.
func (s *Sim) dropEphemeral() {
	for i := range s.Nodes {
		s.takeOutbox(i, func(x *Expressed) bool {
			return x.Kind == KSyncAct || x.Kind == KSyncPsv || x.Kind == KPfxSync || x.Kind == KOther
		})
	}
}

// Parked returns the pending data-fetch Interests of router i of the given kind, oldest first.
func (s *Sim) Parked(i int, k Kind) []*Expressed {
	var out []*Expressed
	for _, x := range s.Nodes[i].Eng.outbox {
		if x.Kind == k {
			out = append(out, x)
		}
	}
	return out
}

func (s *Sim) removeParked(x *Expressed) {
	ob := s.Nodes[x.From].Eng.outbox
	for k, y := range ob {
		if y == x {
			s.Nodes[x.From].Eng.outbox = append(ob[:k:k], ob[k+1:]...)
			return
		}
	}
}

// endOp finishes an operation: ephemeral Interests vanish, management queues are drained.
func (s *Sim) endOp() {
	s.holdSite, s.holdCut = "", false
	if len(s.Held) == 0 {
		s.HeldDesc = "" // the operation ended before the cut: nothing was delayed
	}
	s.dropEphemeral()
	s.Drain()
	for i, n := range s.Nodes {
		if n.Up {
			s.checkAdvert(i, n.DV.VerifRib().Advert(), "Rib.Advert()")
		}
	}
}

// ---------------------------------------------------------------------------------------------
// Events

// Ping delivers router j's current advertisement-sync Interest (built by j's real heartbeat code)
// to router i on the face of link (i,j). Any fetch it triggers stays parked in i's outbox.
func (s *Sim) Ping(i, j int, active bool) {
	if s.Parallel[key(i, j)] {
		// two parallel faces: this sync Interest arrives on the one the previous did not use
		if s.Alt[[2]int{i, j}] {
			delete(s.Alt, [2]int{i, j})
		} else {
			s.Alt[[2]int{i, j}] = true
		}
	}
	nj := s.Nodes[j]
	old := vsched.SetContext(fmt.Sprintf("r%d", j))
	if err := nj.DV.VerifHeartbeat(); err != nil {
		s.Problems = append(s.Problems, fmt.Sprintf("heartbeat of r%d failed: %v", j, err))
	}
	vsched.SetContext(old)
	s.RunTasks()
	want := KSyncAct
	if !active {
		want = KSyncPsv
	}
	got := s.takeOutbox(j, func(x *Expressed) bool { return x.Kind == KSyncAct || x.Kind == KSyncPsv })
	for _, x := range got {
		if x.Kind == want {
			s.deliverInterest(i, x, s.FaceID(i, j))
			break
		}
	}
}

// FlightData is an advertisement Data packet on its way back to the requester.
type FlightData struct {
	X    *Expressed
	Wire enc.Wire
	Adv  string // canonical content
	// SplitReply: the advertisement object the suspended handler holds, and the process it belongs to
	taken *tlv.Advertisement
	proc  *dv.Router
}

// ExchangeQueued is Exchange up to the point where the neighbour has answered: router i hears j's
// sync Interest, its fetch reaches j, j's reply (its advertisement as of NOW) is put in flight and
// stays there until DeliverFlight.
func (s *Sim) ExchangeQueued(i, j int) {
	s.Ping(i, j, !s.Passive[[2]int{i, j}])
	for _, x := range s.Parked(i, KAdvData) {
		if x.Target != j {
			continue
		}
		s.removeParked(x)
		reply := s.deliverInterest(j, x, s.FaceID(j, i))
		if reply == nil {
			s.deliverFailure(x, ndn.InterestResultTimeout)
			continue
		}
		adv := "?"
		if d, _, err := (spec.Spec{}).ReadData(enc.NewWireReader(reply)); err == nil {
			if a, err := tlv.ParseAdvertisement(enc.NewBufferReader(d.Content().Join()), false); err == nil {
				// the same normal form as the neighbour-table comparison (canon.go rel): the OtherCost
				// of the advertiser's entry for itself is read by nobody, and the advertiser's canonical
				// state does not contain it either (R(self)); listing it here made two histories that
				// end in the same canonical state have different successors under Xq.
				// (VERIF_DV_FLIGHTRAW=1 brings the old rendering back: a development aid that shows
				// that the twin audit of the quick tier reports such a canonical form.)
				adv = advertStr(s, a, os.Getenv("VERIF_DV_FLIGHTRAW") == "")
			}
		}
		fd := &FlightData{X: x, Wire: reply, Adv: adv}
		if s.Opt.SplitReply && SplitReplyApplies() {
			// the handler whose reply is in flight has only TAKEN its advertisement so far (the reply
			// computed above by the whole handler is what it sends if nothing comes in between)
			fd.proc = s.Nodes[j].DV
			fd.taken = fd.proc.VerifAdvertTake()
		}
		s.InFlight = append(s.InFlight, fd)
	}
}

// FlightOf lists the in-flight Data addressed to router i, oldest first.
func (s *Sim) FlightOf(i int) []*FlightData {
	var out []*FlightData
	for _, f := range s.InFlight {
		if f.X.From == i {
			out = append(out, f)
		}
	}
	return out
}

// DeliverFlight hands in-flight Data to the requester's callback.
func (s *Sim) DeliverFlight(f *FlightData) {
	for k, g := range s.InFlight {
		if g == f {
			s.InFlight = append(s.InFlight[:k:k], s.InFlight[k+1:]...)
			break
		}
	}
	wire := f.Wire
	if f.taken != nil && s.Nodes[f.X.Target].Up && s.Nodes[f.X.Target].DV == f.proc {
		wire = s.finishReply(f)
	}
	s.deliverData(f.X, wire)
}

// DeliverAdv delivers the parked advertisement fetch x (expressed by x.From for x.Target) to the
// target's handler and the Data it replies to the requester's callback. If the target cannot be
// reached the Interest times out instead.
func (s *Sim) DeliverAdv(x *Expressed) {
	s.removeParked(x)
	i, j := x.From, x.Target
	if j < 0 || !s.LinkLive(i, j) {
		s.deliverFailure(x, ndn.InterestResultTimeout)
		return
	}
	reply := s.deliverInterest(j, x, s.FaceID(j, i))
	if reply == nil {
		s.deliverFailure(x, ndn.InterestResultTimeout)
		return
	}
	s.deliverData(x, reply)
}

// TimeoutAdv / NackAdv resolve a parked fetch without Data.
func (s *Sim) FailParked(x *Expressed, res ndn.InterestResult) {
	s.removeParked(x)
	s.deliverFailure(x, res)
}

// Exchange is the default event of C18: router i hears router j's current sync Interest and, if
// that announces a newer advertisement, fetches and processes it; all spawned work runs to
// quiescence in FIFO order.
func (s *Sim) Exchange(i, j int) {
	s.Exchanges++
	s.Ping(i, j, !s.Passive[[2]int{i, j}])
	for _, x := range s.Parked(i, KAdvData) {
		if x.Target == j {
			s.DeliverAdv(x)
		}
	}
}

// AdvanceClock moves the virtual clock; every parked Interest older than its lifetime times out
// (its callback runs and may re-express).
func (s *Sim) AdvanceClock(d time.Duration) {
	vtime.Advance(d)
	now := vtime.Now()
	for _, f := range append([]*FlightData{}, s.InFlight...) {
		if now.Sub(f.X.At) > 4*time.Second { // the Interest timed out before its Data arrived
			for k, g := range s.InFlight {
				if g == f {
					s.InFlight = append(s.InFlight[:k:k], s.InFlight[k+1:]...)
					break
				}
			}
			s.deliverFailure(f.X, ndn.InterestResultTimeout)
		}
	}
	for i := range s.Nodes {
		for _, x := range append([]*Expressed{}, s.Nodes[i].Eng.outbox...) {
			lt := 4 * time.Second
			if x.Interest.Config != nil && x.Interest.Config.Lifetime != nil {
				lt = *x.Interest.Config.Lifetime
			}
			if x.Cb != nil && now.Sub(x.At) > lt {
				s.FailParked(x, ndn.InterestResultTimeout)
			}
		}
	}
}

// DeadCheck models the passing of more than RouterDeadInterval at router i during which every
// live neighbour kept sending heartbeats (each one a full Exchange) and the others were silent,
// followed by i's periodic checkDeadNeighbors.
func (s *Sim) DeadCheck(i int) {
	n := s.Nodes[i]
	s.AdvanceClock(n.Cfg.RouterDeadInterval() + time.Millisecond)
	for _, j := range s.LiveNeighbors(i) {
		if s.Sends(i, j) {
			s.Exchange(i, j)
		}
	}
	old := vsched.SetContext(fmt.Sprintf("r%d", i))
	n.DV.VerifCheckDead()
	vsched.SetContext(old)
	s.RunTasks()
}

// DeadCheckRace is DeadCheck with the held tasks of router i competing for dv.mutex against
// checkDeadNeighbors: every held task of i first runs whatever it does BEFORE taking the mutex,
// then checkDeadNeighbors runs, then the held tasks continue in FIFO order. The order is produced
// with real goroutines and the real mutex: the harness holds i's mutex, starts checkDeadNeighbors
// in a goroutine (it blocks in Lock), then starts the held tasks one by one, each running until it
// blocks in Lock (or ends); then the harness lets go and waits for all of them. With code whose
// tasks begin with dv.mutex.Lock() this equals "Dc(i) ; release"; it differs exactly when a task
// touches router state before locking.
func (s *Sim) DeadCheckRace(i int) {
	n := s.Nodes[i]
	s.AdvanceClock(n.Cfg.RouterDeadInterval() + time.Millisecond)
	for _, j := range s.LiveNeighbors(i) {
		if s.Sends(i, j) {
			s.Exchange(i, j)
		}
	}
	ctx := fmt.Sprintf("r%d", i)
	var mine, rest []*vsched.Task
	for _, t := range s.Held {
		if t.Ctx == ctx {
			mine = append(mine, t)
		} else {
			rest = append(rest, t)
		}
	}
	old := vsched.SetContext(ctx)
	defer vsched.SetContext(old)
	if len(mine) == 0 {
		n.DV.VerifCheckDead()
		s.RunTasks()
		return
	}
	n.DV.VerifMutexLock()
	done := make(chan struct{}, len(mine)+1)
	started, finished := 0, 0
	settle := func() bool { // wait until every started goroutine is blocked in Lock or has ended
		deadline := time.Now().Add(5 * time.Second)
		for {
			for drained := false; !drained; {
				select {
				case <-done:
					finished++
				default:
					drained = true
				}
			}
			if n.DV.VerifMutexWaiters()+finished == started {
				return true
			}
			if time.Now().After(deadline) {
				return false
			}
			runtime.Gosched()
		}
	}
	ok := true
	started++
	go func() { n.DV.VerifCheckDead(); done <- struct{}{} }()
	ok = settle() && ok
	for _, t := range mine {
		t := t
		started++
		go func() { t.Run(); done <- struct{}{} }()
		ok = settle() && ok
	}
	n.DV.VerifMutexUnlock()
	for finished < started {
		<-done
		finished++
	}
	if !ok {
		s.Problems = append(s.Problems, fmt.Sprintf("DeadCheckRace(r%d): goroutines did not settle behind the mutex", i))
	}
	s.Held = rest
	if len(rest) == 0 {
		s.HeldDesc = ""
	}
	s.RunTasks()
}

func (s *Sim) LinkDown(i, j int) { delete(s.Live, key(i, j)) }
func (s *Sim) LinkUp(i, j int)   { s.Live[key(i, j)] = true }

// RouterDown stops router r: it no longer sends or answers anything; parked Interests of r vanish.
func (s *Sim) RouterDown(r int) {
	s.Nodes[r].Up = false
	s.Nodes[r].Booting = false
	s.Nodes[r].Eng.outbox = nil
	var fl []*FlightData
	for _, f := range s.InFlight {
		if f.X.From != r {
			fl = append(fl, f)
		}
	}
	s.InFlight = fl
	// the process is gone: so are its goroutines
	var keep []*vsched.Task
	for _, t := range s.Held {
		if t.Ctx != fmt.Sprintf("r%d", r) {
			keep = append(keep, t)
		}
	}
	s.Held = keep
	if len(keep) == 0 {
		s.HeldDesc = ""
	}
}

// RouterUp restarts router r as a fresh process a minute after the last event (longer than the
// dead interval of its neighbours, which however only act on it in their next dead check).
func (s *Sim) RouterUp(r int) { s.RouterUpAfter(r, time.Minute) }

// RouterUpAfter restarts the stopped router r as a fresh process (dv.NewRouter with the same name
// and everything Router.Start does before its loop) d after the last event. Nothing guarantees
// that the new incarnation's boot-time sequence numbers exceed those of the previous one: that is
// the code's business (it derives them from the clock), and neighbours that still hold the old
// entry compare against them.
func (s *Sim) RouterUpAfter(r int, d time.Duration) {
	s.AdvanceClock(d)
	s.boot(r)
}

// RouterRestartWindow is RouterRestart with the new process stopping in the boot window of
// Router.Start: handlers and routes are registered, the RIB does not contain the router's own entry
// yet (an advertisement fetched now lists nothing, or only what the router has learned inside the
// window), no heartbeat has been sent. FinishBoot ends the window.
func (s *Sim) RouterRestartWindow(r int, d time.Duration) {
	s.RouterDown(r)
	s.AdvanceClock(d)
	s.bootOpt(r, true)
}

// FinishBoot lets the booting router r reach its loop (it adds itself to its RIB).
func (s *Sim) FinishBoot(r int) {
	n := s.Nodes[r]
	if !n.Booting {
		return
	}
	old := vsched.SetContext(fmt.Sprintf("r%d", r))
	n.DV.VerifBootSelf()
	vsched.SetContext(old)
	n.Booting = false
	s.RunTasks()
}

// AnyBooting reports whether some router is in its boot window.
func (s *Sim) AnyBooting() bool {
	for _, n := range s.Nodes {
		if n.Up && n.Booting {
			return true
		}
	}
	return false
}

// Sends reports whether router j sends sync Interests that router i hears: the link is live and
// j's loop is running.
func (s *Sim) Sends(i, j int) bool { return s.LinkLive(i, j) && !s.Nodes[j].Booting }

// RouterRestart is a process restart as one event: router r stops (RouterDown) and a fresh process
// of the same name is up d later (a supervisor restarting a crashed daemon: d around a second),
// well within the dead interval of the neighbours, which therefore still hold the neighbour
// entry, sequence number and advertisement of the previous incarnation.
func (s *Sim) RouterRestart(r int, d time.Duration) {
	s.RouterDown(r)
	s.RouterUpAfter(r, d)
}

// ---------------------------------------------------------------------------------------------
// Management command stream

// Drain takes the queued nfdc commands of every router, checks their shape and replays the rib
// ones into the reference route table.
func (s *Sim) Drain() {
	for _, n := range s.Nodes {
		if n.DV == nil {
			continue
		}
		// barrier: wait until the management goroutine has processed everything queued so far
		// (Retries < 0 = "until it succeeds", and the engine answers the barrier with success: whatever
		// a changed loop does with its retry accounting, this command is executed exactly once. A loop
		// that never gets to it - stuck on an earlier command - is a verdict, not a hang.)
		n.DV.VerifNfdc().Exec(nfdc.NfdMgmtCmd{Module: barrierModule, Cmd: "sync", Args: &mgmt.ControlArgs{}, Retries: -1})
		select {
		case <-n.Eng.barrier:
		case <-time.After(3 * time.Minute):
			panic("management loop (nfdc.NfdMgmtThread.Start) does not process its queue: a command queued behind the router's own commands is never executed")
		}
		cmds := n.Eng.execd
		n.Eng.execd = nil
		n.LastCmds = cmds
		for _, c := range cmds {
			s.applyCmd(n, c)
		}
	}
	if vtime.PendingTimers() == 0 {
		for _, n := range s.Nodes {
			if n.Eng != nil {
				n.Eng.rejected = nil // nothing can be retried any more
			}
		}
	}
}

// ArmMgmtFailure makes the forwarder reject router r's (k+1)-th next rib command once.
func (s *Sim) ArmMgmtFailure(r, k int) { s.Nodes[r].Eng.failIn = k }

// MgmtFailureArmed / MgmtFailures: deviation bookkeeping.
func (s *Sim) MgmtFailureArmed(r int) bool { return s.Nodes[r].Eng.failIn >= 0 }
func (s *Sim) MgmtFailures() int {
	n := 0
	for _, x := range s.Nodes {
		if x.Eng != nil {
			n += x.Eng.fails
			if x.Eng.failIn >= 0 {
				n++
			}
		}
	}
	return n
}

// TimersPending reports whether the code under test has armed timers that have not fired yet
// (e.g. a delayed retry of a management command).
func (s *Sim) TimersPending() bool { return vtime.PendingTimers() > 0 }

// RunTimers lets virtual time pass (200 ms a step) until no timer is pending, draining the
// management queues after every step.
func (s *Sim) RunTimers() {
	for i := 0; i < 20 && vtime.PendingTimers() > 0; i++ {
		s.AdvanceClock(200 * time.Millisecond)
		s.RunTasks()
		s.Drain()
	}
}

// Close stops the management goroutines of this simulation (call it when the simulation is
// discarded; the goroutines otherwise stay blocked on their queues for ever).
func (s *Sim) Close() {
	for _, n := range s.Nodes {
		if n.DV != nil {
			n.DV.VerifNfdc().Stop()
			n.DV = nil
		}
	}
}

func (s *Sim) applyCmd(n *Node, c ExecRec) {
	bad := func(f string, a ...any) {
		n.CmdProblems = append(n.CmdProblems, fmt.Sprintf(f, a...))
	}
	if c.Module != "rib" {
		return // faces/update and strategy-choice/set issued at boot
	}
	if c.Args == nil || c.Args.Name == nil {
		bad("rib %s without a name", c.Cmd)
		return
	}
	name := c.Args.Name.String()
	var face uint64
	if c.Args.FaceId != nil {
		face = *c.Args.FaceId
	}
	if c.Args.Origin == nil || *c.Args.Origin != config.NlsrOrigin {
		bad("rib %s %s face=%d: origin is not NLSR(128)", c.Cmd, name, face)
	}
	switch c.Cmd {
	case "register":
		if c.Args.Cost == nil {
			bad("rib register %s face=%d without a cost", name, face)
			return
		}
		n.Routes[RouteKey{name, face}] = *c.Args.Cost
	case "unregister":
		delete(n.Routes, RouteKey{name, face})
	default:
		bad("rib command %q is neither register nor unregister", c.Cmd)
	}
}

// EndOp must be called after every operation (exported for the harnesses).
func (s *Sim) EndOp() { s.endOp() }

// HasSilentNeighbor reports whether router i lists a neighbour it can no longer hear.
func (s *Sim) HasSilentNeighbor(i int) bool {
	for _, v := range s.Nodes[i].DV.VerifNeighbors().VerifDump() {
		j := s.IdxH(v.NameH)
		if j < 0 || !s.LinkLive(i, j) {
			return true
		}
	}
	return false
}
