package dvsim

import (
	"fmt"
	"sort"
	"strings"
	"time"

	"github.com/named-data/ndnd/dv/dv"
	"verif/shim/vsched"
	"verif/shim/vtime"
)

// SimState is a saved simulation state (see the hook files for what is copied of each router).
type SimState struct {
	clock time.Duration
	live  map[[2]int]bool
	alt   map[[2]int]bool
	// passive: Sim.Passive (static in most configurations; changed by the C18 event "neighbour
	// becomes an explicitly configured one", see ext_c18.go)
	passive map[[2]int]bool
	nodes   []nodeState
}

type nodeState struct {
	up      bool
	booting bool
	rs      *dv.VerifRouterState
	nonce   uint64
	routes  map[RouteKey]uint64
	cmdProb []string
	pubSets map[uint64][]string
	pubCur  map[string]bool
	pubSeq  uint64
	failIn  int
	fails   int
}

// Saveable reports whether the state consists of table contents only: nothing queued, nothing
// parked (parked Interests hold callbacks, which cannot be copied), no harness anomaly.
func (s *Sim) Saveable() bool {
	if vsched.Pending() > 0 || len(s.Problems) > 0 || len(s.Held) > 0 || len(s.InFlight) > 0 || vtime.PendingTimers() > 0 {
		return false
	}
	for _, n := range s.Nodes {
		if len(n.Eng.outbox) > 0 {
			return false
		}
	}
	return true
}

func copyBoolMap[K comparable](m map[K]bool) map[K]bool {
	c := make(map[K]bool, len(m))
	for k, v := range m {
		c[k] = v
	}
	return c
}

func (s *Sim) Save() *SimState {
	st := &SimState{clock: vtime.Now().Sub(vtime.Epoch), live: copyBoolMap(s.Live), alt: copyBoolMap(s.Alt), passive: copyBoolMap(s.Passive)}
	for _, n := range s.Nodes {
		ns := nodeState{up: n.Up, booting: n.Booting, rs: n.DV.VerifSave(), nonce: n.Eng.nonce, routes: make(map[RouteKey]uint64, len(n.Routes)),
			cmdProb: append([]string{}, n.CmdProblems...), pubSets: make(map[uint64][]string, len(n.PubSets)), pubCur: copyBoolMap(n.PubCur), pubSeq: n.PubSeq, failIn: n.Eng.failIn, fails: n.Eng.fails}
		for k, v := range n.Routes {
			ns.routes[k] = v
		}
		for k, v := range n.PubSets {
			ns.pubSets[k] = v
		}
		st.nodes = append(st.nodes, ns)
	}
	return st
}

// Restore writes a saved state back into this simulation's router objects.
func (s *Sim) Restore(st *SimState) {
	vtime.Reset(true)
	vtime.Advance(st.clock)
	vsched.Reset()
	s.Live, s.Alt = copyBoolMap(st.live), copyBoolMap(st.alt)
	s.Passive = copyBoolMap(st.passive)
	s.Problems, s.AdvSeen, s.AdvTorn = nil, nil, nil
	s.Held, s.HeldDesc, s.holdSite, s.holdCut, s.HeldNbr = nil, "", "", false, -1
	s.InFlight = nil
	for i, n := range s.Nodes {
		ns := st.nodes[i]
		n.Up, n.Booting = ns.up, ns.booting
		n.DV.VerifRestore(ns.rs)
		n.Eng.outbox = nil
		n.Eng.nonce = ns.nonce
		n.Eng.failIn, n.Eng.fails, n.Eng.rejected, n.Eng.execd = ns.failIn, ns.fails, nil, nil
		n.Routes = make(map[RouteKey]uint64, len(ns.routes))
		for k, v := range ns.routes {
			n.Routes[k] = v
		}
		n.CmdProblems = append([]string{}, ns.cmdProb...)
		n.PubSets = make(map[uint64][]string, len(ns.pubSets))
		for k, v := range ns.pubSets {
			n.PubSets[k] = v
		}
		n.PubCur = copyBoolMap(ns.pubCur)
		n.PubSeq = ns.pubSeq
		n.LastCmds = nil
	}
}

// FullDump renders everything Save copies, with absolute sequence numbers and clock-relative
// times. It is used to cross-check restored states against plain re-execution.
func (s *Sim) FullDump() string {
	var b strings.Builder
	fmt.Fprintf(&b, "clock+%v %s alt=%v passive=%v tasks=%d held=%d inflight=%d\n", vtime.Now().Sub(vtime.Epoch), s.Mode(), sortedPairs(s.Alt), sortedPairs(s.Passive), vsched.Pending(), len(s.Held), len(s.InFlight))
	for i, n := range s.Nodes {
		if n.Booting {
			b.WriteString("(in its boot window) ")
		}
		fmt.Fprintf(&b, "[r%d up=%v nonce=%d seq=%d failIn=%d fails=%d rejected=%v]\n", i, n.Up, n.Eng.nonce, n.DV.VerifAdvertSeq(), n.Eng.failIn, n.Eng.fails, n.Eng.rejected)
		for _, v := range n.DV.VerifNeighbors().VerifDump() {
			fmt.Fprintf(&b, " N %s seq=%d face=%d act=%v age=%d dead=%v adv={%s}\n", s.shortH(v.NameH), v.AdvertSeq, v.FaceId, v.Active, v.AgeNs, v.Dead, advertStr(s, v.Advert, false))
		}
		for _, e := range n.DV.VerifRib().VerifDump() {
			cs := []string{}
			for h, c := range e.Costs {
				cs = append(cs, fmt.Sprintf("%s:%d", s.shortH(h), c))
			}
			sort.Strings(cs)
			fmt.Fprintf(&b, " R %s %s:%d %s:%d dirty=%v {%s}\n", s.shortH(e.NameH), s.shortH(e.NextHop1), e.Lowest1, s.shortH(e.NextHop2), e.Lowest2, e.Dirty, strings.Join(cs, ","))
		}
		for _, r := range n.DV.VerifFib().VerifDump() {
			es := []string{}
			for _, e := range r.Entries {
				es = append(es, fmt.Sprintf("f%d:%d(prev %d)", e.FaceId, e.Cost, e.VerifPrevCost()))
			}
			fmt.Fprintf(&b, " F %s %v\n", r.Name, es)
		}
		fmt.Fprintf(&b, " Fmark %v\n", n.DV.VerifFib().VerifMarks())
		routers, snapAt, repo := n.DV.VerifPfx().VerifDump()
		for _, r := range routers {
			fmt.Fprintf(&b, " P %s fetching=%v known=%d latest=%d %v\n", r.Name, r.Fetching, r.Known, r.Latest, r.Prefixes)
		}
		fmt.Fprintf(&b, " Psnap=%d repo=%d svs=%s\n", snapAt, repo, n.DV.VerifPfxSvs().VerifDump())
		rk := make([]string, 0, len(n.Routes))
		for k, c := range n.Routes {
			rk = append(rk, fmt.Sprintf("%s@%d=%d", k.Name, k.Face, c))
		}
		sort.Strings(rk)
		fmt.Fprintf(&b, " routes %v problems %v\n", rk, n.CmdProblems)
		var pk []string
		for _, x := range n.Eng.outbox {
			pk = append(pk, fmt.Sprintf(" parked %s %s\n", x.Kind, x.Name))
		}
		sort.Strings(pk) // the order of simultaneous fetches follows Go map iteration in the code under test
		b.WriteString(strings.Join(pk, ""))
	}
	return b.String()
}

func sortedPairs(m map[[2]int]bool) []string {
	var out []string
	for k, v := range m {
		if v {
			out = append(out, fmt.Sprintf("%d<%d", k[0], k[1]))
		}
	}
	sort.Strings(out)
	return out
}
