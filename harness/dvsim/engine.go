// Package dvsim is the shared simulation layer of the C18/C19 harnesses: N real dv.Router objects
// (never Start()ed) attached to a harness implementation of ndn.Engine, a harness-owned network
// (expressed Interests are parked until the explorer delivers, times out or drops them), a
// harness-owned run queue for every `go` statement of dv/dv and std/sync (verif/shim/vsched) and
// a virtual clock (verif/shim/vtime).
package dvsim

import (
	"encoding/binary"
	"errors"
	"fmt"
	"time"

	enc "github.com/named-data/ndnd/std/encoding"
	"github.com/named-data/ndnd/std/ndn"
	mgmt "github.com/named-data/ndnd/std/ndn/mgmt_2022"
	spec "github.com/named-data/ndnd/std/ndn/spec_2022"
	"verif/shim/vtime"
)

// Kind classifies an expressed Interest by its name.
type Kind int

const (
	KOther   Kind = iota
	KSyncAct      // /localhop/<net>/32=DV/32=ADS/32=ACT/v=2/<params>
	KSyncPsv      // .../32=PSV/...
	KAdvData      // /localhop/<router>/32=DV/32=ADV/seq=<n>
	KPfxSync      // /<net>/32=DV/32=PFS/v=2/<params>
	KPfxData      // /<router>/32=DV/32=PFX/seq=<n>  |  /<router>/32=DV/32=PFX/32=SNAP
)

func (k Kind) String() string {
	return [...]string{"other", "syncACT", "syncPSV", "advData", "pfxSync", "pfxData"}[k]
}

// Expressed is one Interest handed to Engine.Express.
type Expressed struct {
	From     int
	Interest *ndn.EncodedInterest
	Name     enc.Name
	Cb       ndn.ExpressCallbackFunc
	Kind     Kind
	Target   int    // router index the name addresses (KAdvData, KPfxData), else -1
	Seq      uint64 // sequence number component (KAdvData, KPfxData non-snapshot)
	Snap     bool   // KPfxData snapshot request
	At       time.Time
}

type handlerEnt struct {
	prefix enc.Name
	h      ndn.InterestHandler
}

// Engine is the harness ndn.Engine of one router. It never calls back on its own.
type Engine struct {
	sim      *Sim
	idx      int
	handlers []handlerEnt
	outbox   []*Expressed
	nonce    uint64
	// commands the real nfdc management loop handed to ExecMgmtCmd since the last barrier (written
	// by the router's nfdc goroutine, read by the harness after the barrier signal)
	execd   []ExecRec
	barrier chan struct{}
	// forwarder-side failure deviation: the (failIn+1)-th rib command from now on is rejected once
	// (-1: not armed); rejected lists what was rejected and may still be retried later
	failIn   int
	fails    int
	rejected []string
}

// ExecRec is one management command as actually sent to the forwarder.
type ExecRec struct {
	Module, Cmd string
	Args        *mgmt.ControlArgs
}

// barrierModule names the pseudo command the harness queues behind the real ones: the engine
// answers it with an error (so the loop treats it as a failed command that was never executed) and
// signals the harness that everything queued before it has been processed.
const barrierModule = "verif-barrier"

type simTimer struct{ e *Engine }

func (t simTimer) Now() time.Time                              { return vtime.Now() }
func (t simTimer) Sleep(time.Duration)                         {}
func (t simTimer) Schedule(time.Duration, func()) func() error { return func() error { return nil } }
func (t simTimer) Nonce() []byte {
	t.e.nonce++
	b := make([]byte, 8)
	binary.BigEndian.PutUint64(b, uint64(t.e.idx+1)<<48|t.e.nonce)
	return b
}

func (e *Engine) EngineTrait() ndn.Engine { return e }
func (e *Engine) Spec() ndn.Spec          { return spec.Spec{} }
func (e *Engine) Timer() ndn.Timer        { return simTimer{e} }
func (e *Engine) Start() error            { return nil }
func (e *Engine) Stop() error             { return nil }
func (e *Engine) IsRunning() bool         { return true }

func (e *Engine) AttachHandler(prefix enc.Name, handler ndn.InterestHandler) error {
	for _, h := range e.handlers {
		if h.prefix.Equal(prefix) {
			return fmt.Errorf("handler already attached for %s", prefix)
		}
	}
	e.handlers = append(e.handlers, handlerEnt{prefix.Clone(), handler})
	return nil
}

func (e *Engine) DetachHandler(prefix enc.Name) error {
	for i, h := range e.handlers {
		if h.prefix.Equal(prefix) {
			e.handlers = append(e.handlers[:i], e.handlers[i+1:]...)
			return nil
		}
	}
	return fmt.Errorf("no handler for %s", prefix)
}

func (e *Engine) RegisterRoute(prefix enc.Name) error   { return nil }
func (e *Engine) UnregisterRoute(prefix enc.Name) error { return nil }
func (e *Engine) ExecMgmtCmd(module string, cmd string, args any) error {
	if module == barrierModule {
		e.barrier <- struct{}{}
		return nil
	}
	a, _ := args.(*mgmt.ControlArgs)
	if module == "rib" && e.failIn >= 0 {
		if e.failIn == 0 {
			e.failIn = -1
			e.fails++
			d := cmd
			if a != nil && a.Name != nil {
				d += " " + a.Name.String()
				if a.FaceId != nil {
					d += fmt.Sprintf("@f%d", *a.FaceId)
				}
				if a.Cost != nil {
					d += fmt.Sprintf("=%d", *a.Cost)
				}
			}
			e.rejected = append(e.rejected, d)
			return errors.New("forwarder rejected the command")
		}
		e.failIn--
	}
	e.execd = append(e.execd, ExecRec{module, cmd, a})
	return nil
}

func (e *Engine) Express(interest *ndn.EncodedInterest, callback ndn.ExpressCallbackFunc) error {
	x := &Expressed{From: e.idx, Interest: interest, Name: interest.FinalName.Clone(), Cb: callback, Target: -1, At: vtime.Now()}
	e.sim.classify(x)
	e.outbox = append(e.outbox, x)
	return nil
}

// match returns the handler with the longest attached prefix of name.
func (e *Engine) match(name enc.Name) ndn.InterestHandler {
	best := -1
	var h ndn.InterestHandler
	for _, he := range e.handlers {
		if he.prefix.IsPrefix(name) && len(he.prefix) > best {
			best = len(he.prefix)
			h = he.h
		}
	}
	return h
}
