package dvsim

import (
	"fmt"
	"sort"
	"strings"

	"github.com/named-data/ndnd/dv/config"
)

// Extensions used by the C18 harness (additive; nothing here changes the behaviour of the functions
// the C19 harness shares).
//
//   - the INSTALLED routes as an observation channel of C18: what a router has told its forwarder
//     (the replay of every rib register / unregister command its real management loop handed to the
//     engine, Node.Routes) for the routing prefixes <router>/32=DV, compared at fixed points with the
//     hop distances of the live topology - not with the router's own tables (that is C19.mirror);
//   - the fault event "face re-created": a link flaps for less than the dead interval (or a face is
//     torn down and created again, or a neighbour moves to another face): the neighbour stays in the
//     neighbour table, its advertisement and sequence number do not change, but its sync Interests
//     arrive on a NEW face id from now on and the old face id is gone.

// FaceFlap re-creates the face on which router i hears router j: from now on j's sync Interests
// reach i on another face id, the previous one is dead. (Two ids per directed link: callers use the
// event at most once per directed link and history; a second flap would bring the first id back,
// which a real forwarder, handing out ever new ids, does not do.)
func (s *Sim) FaceFlap(i, j int) {
	k := [2]int{i, j}
	if s.Alt[k] {
		delete(s.Alt, k)
	} else {
		s.Alt[k] = true
	}
}

// faceLeadsTo maps a face id used in a route of router i to the live neighbour it currently leads
// to, -1 if the face belongs to no live link of i (a face of a lost link, of a stopped router, or the
// previous face of a re-created one). Both faces of a parallel link lead to the neighbour.
func (s *Sim) faceLeadsTo(i int, f uint64) int {
	j := s.FaceOwner(i, f)
	if j < 0 || j == i || !s.LinkLive(i, j) {
		return -1
	}
	if f == s.FaceID(i, j) || s.Parallel[key(i, j)] {
		return j
	}
	return -1
}

// FacesSettled reports whether every neighbour entry of every up router records the face on which
// that neighbour's sync Interests currently arrive (after FaceFlap(i,j) it does not until i has
// heard j again: the exchange X(i<j) is enabled and changes the state, so the state is no fixed
// point even if all advertisements are current).
func (sn *Snap) FacesSettled() (bool, string) {
	s := sn.s
	for i, n := range s.Nodes {
		if !n.Up {
			continue
		}
		for _, v := range sn.nb[i] {
			j := s.IdxH(v.NameH)
			if j < 0 || !s.LinkLive(i, j) || s.Parallel[key(i, j)] {
				continue
			}
			if v.FaceId != s.FaceID(i, j) {
				return false, fmt.Sprintf("r%d has not heard r%d on its re-created face %d yet (entry says %d)", i, j, s.FaceID(i, j), v.FaceId)
			}
			if v.Active == s.Passive[[2]int{i, j}] {
				return false, fmt.Sprintf("r%d has not heard r%d since it changed between passive and explicitly configured neighbour", i, j)
			}
		}
	}
	return true, ""
}

// FixedPoint: RoutingQuiescent and FacesSettled.
func (sn *Snap) FixedPoint() (bool, string) {
	if q, why := sn.RoutingQuiescent(); !q {
		return false, why
	}
	return sn.FacesSettled()
}

// InstalledRoutes returns the routes router i has installed for the routing prefix of router d
// (<d>/32=DV): face id -> cost, from the replayed management command stream.
func (s *Sim) InstalledRoutes(i, d int) map[uint64]uint64 {
	out := map[uint64]uint64{}
	name := s.Nodes[d].NameStr + "/32=DV"
	for k, c := range s.Nodes[i].Routes {
		if k.Name == name {
			out[k.Face] = c
		}
	}
	return out
}

func instStr(s *Sim, i int, r map[uint64]uint64) string {
	x := make([]string, 0, len(r))
	for f, c := range r {
		to := "no live link"
		if j := s.faceLeadsTo(i, f); j >= 0 {
			to = fmt.Sprintf("r%d", j)
		}
		x = append(x, fmt.Sprintf("face %d (%s) cost %d", f, to, c))
	}
	sort.Strings(x)
	if len(x) == 0 {
		return "none"
	}
	return strings.Join(x, ", ")
}

// CheckInstalled is the part of C18.dist / C18.withdraw that is about what the routers DO with
// their tables: at a fixed point the routes a router has installed in its forwarder towards the
// other routers must be the shortest paths of the live topology. It is meaningful at fixed points
// only. Three-valued: the property speaks about the cost to a destination, the chosen next hop and
// about unreachable destinations; it is silent about additional (more expensive) routes, which are
// accepted as long as they use a face of the remaining topology.
//
//	C18.withdraw: destination not reachable (router down, partitioned away, or the observing router is
//	              isolated): no route for it is installed, on any face
//	C18.dist:     reachable destination d at h hops: a route is installed; the lowest installed cost is
//	              h; every route with that cost uses the current face of a live neighbour one hop
//	              closer to d; every other route uses the current face of some live neighbour
func (sn *Snap) CheckInstalled() []Finding {
	s := sn.s
	var out []Finding
	up := s.UpVec()
	live := map[[2]int]bool{}
	for e := range s.Live {
		if s.Nodes[e[0]].Up && s.Nodes[e[1]].Up {
			live[e] = true
		}
	}
	dist := make([][]int, s.G.N)
	for i := range dist {
		dist[i] = Distances(s.G.N, live, up, i)
	}
	for i, n := range s.Nodes {
		if !n.Up {
			continue
		}
		for d := 0; d < s.G.N; d++ {
			if d == i {
				continue
			}
			r := s.InstalledRoutes(i, d)
			h := dist[i][d]
			if h < 0 {
				if len(r) > 0 {
					iso := ""
					if len(s.LiveNeighbors(i)) == 0 {
						iso = " (r" + fmt.Sprint(i) + " is isolated)"
					}
					out = append(out, Finding{"C18.withdraw", "unreachable destination keeps an installed route at the fixed point",
						fmt.Sprintf("r%d cannot reach r%d in the remaining topology (%s)%s but its forwarder still holds: %s", i, d, s.Mode(), iso, instStr(s, i, r))})
				}
				continue
			}
			if h >= int(config.CostInfinity) {
				continue
			}
			if len(r) == 0 {
				out = append(out, Finding{"C18.dist", "reachable destination has no installed route at the fixed point",
					fmt.Sprintf("r%d is %d hops from r%d (%s) but no route for it is installed in its forwarder", i, h, d, s.Mode())})
				continue
			}
			best := uint64(1 << 62)
			for _, c := range r {
				if c < best {
					best = c
				}
			}
			bad := false
			for f, c := range r {
				nh := s.faceLeadsTo(i, f)
				if c == best && (nh < 0 || dist[nh][d] != h-1) {
					bad = true
					out = append(out, Finding{"C18.dist", "installed next hop (lowest-cost route) is not on a shortest path at the fixed point",
						fmt.Sprintf("r%d -> r%d, hop distance %d (%s): installed %s", i, d, h, s.Mode(), instStr(s, i, r))})
					break
				}
			}
			if bad {
				continue
			}
			if int(best) != h {
				out = append(out, Finding{"C18.dist", "installed route cost differs from hop distance at the fixed point",
					fmt.Sprintf("r%d -> r%d, hop distance %d (%s): installed %s", i, d, h, s.Mode(), instStr(s, i, r))})
				continue
			}
			for f := range r {
				if s.faceLeadsTo(i, f) < 0 {
					out = append(out, Finding{"C18.dist", "installed route uses a face that is not part of the remaining topology at the fixed point",
						fmt.Sprintf("r%d -> r%d, hop distance %d (%s): installed %s", i, d, h, s.Mode(), instStr(s, i, r))})
					break
				}
			}
		}
	}
	return out
}

// CanonFaces makes CanonRouting list the directed links whose face has been re-created an odd number
// of times (which face id the neighbour's next sync Interest arrives on: together with the face
// recorded in the neighbour entry this decides whether that Interest changes the entry). Set by
// harnesses that generate FaceFlap events; off by default (the canonical form of every other
// configuration is unchanged).
var CanonFaces bool

func canonFaces(s *Sim) string {
	if !CanonFaces || (len(s.Alt) == 0 && len(s.Passive) == 0) {
		return ""
	}
	var x []string
	for k, v := range s.Alt {
		if v && !s.Parallel[key(k[0], k[1])] {
			x = append(x, fmt.Sprintf("%d<%d", k[0], k[1]))
		}
	}
	sort.Strings(x)
	return "\nFACES re-created " + strings.Join(x, ",") + " passive " + strings.Join(sortedPairs(s.Passive), ",")
}

// FaceActivate: router j, so far heard by router i through passive discovery (Passive[i,j]), becomes
// an explicitly configured neighbour: its sync Interests reach i under the ACTIVE prefix over a new
// face from now on; the face it was heard on is gone.
func (s *Sim) FaceActivate(i, j int) {
	delete(s.Passive, [2]int{i, j})
	s.FaceFlap(i, j)
}

// Knows reports whether router i's neighbour table lists router j.
func (sn *Snap) Knows(i, j int) bool {
	for _, v := range sn.nb[i] {
		if sn.s.IdxH(v.NameH) == j {
			return true
		}
	}
	return false
}

// NothingToHear reports whether the exchange X(i<j) would change nothing but bookkeeping: Fresh(i,j),
// or - configurations with CanonFaces, whose canonical form also says whether the recorded sequence
// number is behind ("fresh<") - i holds j's current advertisement on the face and in the role j is
// heard now, under an older number: the sync Interest triggers a fetch that brings what i has.
// (Which operations are enabled must not depend on the sequence numbers themselves: code under test
// that bumps them in a map-iteration-dependent way would make histories irreproducible, which is for
// C18.unique to report and not for the search to stumble over.)
func (sn *Snap) NothingToHear(i, j int) bool {
	if sn.Fresh(i, j) {
		return true
	}
	s := sn.s
	if !CanonFaces || s.HeldAt(i) {
		return false
	}
	for _, v := range sn.nb[i] {
		if s.IdxH(v.NameH) == j {
			return sn.relAt(i, v) == "fresh<" && (v.FaceId == s.FaceID(i, j) || s.Parallel[key(i, j)]) && v.Active == !s.Passive[[2]int{i, j}]
		}
	}
	return false
}
