package dvsim

import (
	"fmt"
	"sort"
	"strings"
)

// Graph is an undirected simple graph on routers 0..N-1.
type Graph struct {
	N     int
	Edges [][2]int // i<j, sorted
}

// String is the config-name form, e.g. "n4:01-12-23".
func (g Graph) String() string {
	p := make([]string, len(g.Edges))
	for i, e := range g.Edges {
		p[i] = fmt.Sprintf("%d%d", e[0], e[1])
	}
	return fmt.Sprintf("n%d:%s", g.N, strings.Join(p, "-"))
}

// ParseGraph parses the String form.
func ParseGraph(s string) (Graph, error) {
	var g Graph
	var rest string
	if _, err := fmt.Sscanf(s, "n%d:%s", &g.N, &rest); err != nil {
		return g, fmt.Errorf("bad graph %q: %v", s, err)
	}
	for _, p := range strings.Split(rest, "-") {
		if len(p) != 2 {
			return g, fmt.Errorf("bad edge %q in %q", p, s)
		}
		a, b := int(p[0]-'0'), int(p[1]-'0')
		if a < 0 || b < 0 || a >= g.N || b >= g.N || a == b {
			return g, fmt.Errorf("bad edge %q in %q", p, s)
		}
		if a > b {
			a, b = b, a
		}
		g.Edges = append(g.Edges, [2]int{a, b})
	}
	sort.Slice(g.Edges, func(i, j int) bool {
		if g.Edges[i][0] != g.Edges[j][0] {
			return g.Edges[i][0] < g.Edges[j][0]
		}
		return g.Edges[i][1] < g.Edges[j][1]
	})
	return g, nil
}

func pairIndex(n int) [][2]int {
	var p [][2]int
	for i := 0; i < n; i++ {
		for j := i + 1; j < n; j++ {
			p = append(p, [2]int{i, j})
		}
	}
	return p
}

func permutations(n int) [][]int {
	var out [][]int
	a := make([]int, n)
	for i := range a {
		a[i] = i
	}
	var rec func(k int)
	rec = func(k int) {
		if k == n {
			out = append(out, append([]int{}, a...))
			return
		}
		for i := k; i < n; i++ {
			a[k], a[i] = a[i], a[k]
			rec(k + 1)
			a[k], a[i] = a[i], a[k]
		}
	}
	rec(0)
	return out
}

// ConnectedGraphs returns one representative (the labelling with the smallest edge bit mask) of
// every isomorphism class of connected simple graphs on n vertices, ordered by edge count then mask.
// Counts: n=2:1, 3:2, 4:6, 5:21, 6:112.
func ConnectedGraphs(n int) []Graph {
	pairs := pairIndex(n)
	pidx := map[[2]int]int{}
	for i, p := range pairs {
		pidx[p] = i
	}
	perms := permutations(n)
	seen := map[uint32]bool{}
	var out []Graph
	for mask := uint32(0); mask < 1<<uint(len(pairs)); mask++ {
		// canonical form: minimum mask over all relabellings
		min := mask
		for _, pm := range perms {
			var m uint32
			for i, p := range pairs {
				if mask&(1<<uint(i)) != 0 {
					a, b := pm[p[0]], pm[p[1]]
					if a > b {
						a, b = b, a
					}
					m |= 1 << uint(pidx[[2]int{a, b}])
				}
			}
			if m < min {
				min = m
			}
		}
		if min != mask || seen[mask] {
			continue
		}
		seen[mask] = true
		g := Graph{N: n}
		for i, p := range pairs {
			if mask&(1<<uint(i)) != 0 {
				g.Edges = append(g.Edges, p)
			}
		}
		if g.connected() {
			out = append(out, g)
		}
	}
	sort.SliceStable(out, func(i, j int) bool { return len(out[i].Edges) < len(out[j].Edges) })
	return out
}

func (g Graph) connected() bool {
	all := map[[2]int]bool{}
	for _, e := range g.Edges {
		all[e] = true
	}
	up := make([]bool, g.N)
	for i := range up {
		up[i] = true
	}
	d := Distances(g.N, all, up, 0)
	for _, x := range d {
		if x < 0 {
			return false
		}
	}
	return true
}

// Distances returns BFS hop distances from src over live links between up routers (-1 = unreachable).
func Distances(n int, live map[[2]int]bool, up []bool, src int) []int {
	d := make([]int, n)
	for i := range d {
		d[i] = -1
	}
	if !up[src] {
		return d
	}
	d[src] = 0
	q := []int{src}
	for len(q) > 0 {
		u := q[0]
		q = q[1:]
		for v := 0; v < n; v++ {
			if v == u || !up[v] || d[v] >= 0 {
				continue
			}
			a, b := u, v
			if a > b {
				a, b = b, a
			}
			if live[[2]int{a, b}] {
				d[v] = d[u] + 1
				q = append(q, v)
			}
		}
	}
	return d
}

// Ring, Line and a few named 6-node graphs.
func Ring(n int) Graph {
	g := Graph{N: n}
	for i := 0; i < n; i++ {
		a, b := i, (i+1)%n
		if a > b {
			a, b = b, a
		}
		g.Edges = append(g.Edges, [2]int{a, b})
	}
	gg, _ := ParseGraph(g.String())
	return gg
}

func Line(n int) Graph {
	g := Graph{N: n}
	for i := 0; i+1 < n; i++ {
		g.Edges = append(g.Edges, [2]int{i, i + 1})
	}
	return g
}
