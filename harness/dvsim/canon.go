package dvsim

import (
	"fmt"
	"sort"
	"strconv"
	"strings"

	"github.com/named-data/ndnd/dv/config"
	"github.com/named-data/ndnd/dv/table"
	"github.com/named-data/ndnd/dv/tlv"
	"verif/shim/vsched"
)

// Snap is one consistent white-box reading of all routers, shared by the canonical form and the
// oracles (taking it is the expensive part).
type Snap struct {
	s   *Sim
	nb  [][]table.VerifNeighbor
	rib [][]table.VerifRibEntry
	adv []string // canonical string of Rib.Advert() per router
	raw []*tlv.Advertisement
}

func (s *Sim) Snap() *Snap {
	sn := &Snap{s: s, nb: make([][]table.VerifNeighbor, s.G.N), rib: make([][]table.VerifRibEntry, s.G.N), adv: make([]string, s.G.N), raw: make([]*tlv.Advertisement, s.G.N)}
	for i, n := range s.Nodes {
		if !n.Up {
			continue
		}
		sn.nb[i] = n.DV.VerifNeighbors().VerifDump()
		sort.Slice(sn.nb[i], func(a, b int) bool { return s.IdxH(sn.nb[i][a].NameH) < s.IdxH(sn.nb[i][b].NameH) })
		sn.rib[i] = n.DV.VerifRib().VerifDump()
		sort.Slice(sn.rib[i], func(a, b int) bool { return s.IdxH(sn.rib[i][a].NameH) < s.IdxH(sn.rib[i][b].NameH) })
		sn.raw[i] = n.DV.VerifRib().Advert()
		sn.adv[i] = advertString(s, sn.raw[i])
	}
	return sn
}

// advertString renders an advertisement canonically. With normSelf the OtherCost of the
// advertiser's entry for ITSELF (destination == next hop, cost 0) is left out: a receiver k only
// looks at OtherCost when the entry's next hop is k, and the next hop of that entry is the
// advertiser, so the value cannot influence any other router.
func advertString(s *Sim, a *tlv.Advertisement) string { return advertStr(s, a, true) }

func advertStr(s *Sim, a *tlv.Advertisement, normSelf bool) string {
	if a == nil {
		return "nil"
	}
	if pin, ok := s.advPin[a]; ok {
		// the memory this stored advertisement points into has been overwritten by the harness
		// (Options.ReuseWire): what it said when it was stored
		if normSelf {
			return pin[0]
		}
		return pin[1]
	}
	x := make([]string, 0, len(a.Entries))
	for _, e := range a.Entries {
		d, nh := "?", "?"
		if e.Destination != nil {
			d = s.shortH(e.Destination.Name.Hash())
		}
		if e.NextHop != nil {
			nh = s.shortH(e.NextHop.Name.Hash())
		}
		if normSelf && d == nh && e.Cost == 0 {
			x = append(x, d+">"+nh+":0")
			continue
		}
		x = append(x, d+">"+nh+":"+strconv.FormatUint(e.Cost, 10)+"/"+strconv.FormatUint(e.OtherCost, 10))
	}
	sort.Strings(x)
	return strings.Join(x, ",")
}

func cmp(a, b uint64) string {
	switch {
	case a == b:
		return "="
	case a < b:
		return "<"
	}
	return ">"
}

// rel classifies what router i holds about neighbour j.
//
//	fresh  the stored advertisement equals j's current one: a fetch would change nothing
//	       ("fresh>k": and the recorded sequence number is k ahead of j's)
//	stale  it differs and j's sequence number is ahead: the next sync Interest triggers a fetch
//	stuck  it differs although i believes it is up to date (no fetch will ever be triggered)
func (sn *Snap) rel(v table.VerifNeighbor) string { return sn.relAt(-1, v) }

// relAt is rel for an entry of router i's neighbour table. While router i holds back the ribUpdate
// of an advertisement of this neighbour, "fresh" is split: with the recorded number BEHIND the
// neighbour's current one ("fresh<") the next sync Interest triggers a fetch whose own ribUpdate
// processes the (equal) advertisement that the held task has not processed yet; with equal numbers
// nothing happens until the release.
func (sn *Snap) relAt(i int, v table.VerifNeighbor) string {
	s := sn.s
	j := s.IdxH(v.NameH)
	if j < 0 || !s.Nodes[j].Up {
		return "?"
	}
	cur := s.Nodes[j].DV.VerifAdvertSeq()
	// A recorded number AHEAD of the neighbour's current one (possible only if a restarted
	// neighbour comes back with a lower number than its previous incarnation used) is rendered with
	// its margin: that many further changes of the neighbour will go unnoticed.
	ahead := ""
	if v.AdvertSeq > cur {
		ahead = fmt.Sprintf(">%d", v.AdvertSeq-cur)
	}
	switch {
	case advertString(s, v.Advert) == sn.adv[j]:
		if i >= 0 && v.AdvertSeq < cur && (s.HeldNbr < 0 || s.HeldNbr == j) && s.HeldAt(i) {
			return "fresh<"
		}
		if i >= 0 && v.AdvertSeq < cur && CanonFaces {
			// configurations with re-created faces (ext_c18.go): a sync Interest can be delivered to a
			// router that holds the current advertisement (it arrives on a new face); whether it also
			// triggers a fetch (parked, held or in flight in some families) depends on the numbers
			return "fresh<"
		}
		return "fresh" + ahead
	case v.AdvertSeq < cur:
		return "stale"
	case v.AdvertSeq == cur:
		return "stuck="
	}
	return "stuck" + ahead
}

// relFresh: the stored advertisement equals the neighbour's current one.
func relFresh(rel string) bool { return strings.HasPrefix(rel, "fresh") }

// CanonRouting is the canonical form of everything that can influence future routing behaviour:
// live topology, per router the neighbour table, the RIB costs below infinity, and the parked
// fetches.
//
//   - Sequence numbers appear only as the relation `rel` above. The stored advertisement itself
//     is dead state once ribUpdate has run (only ribUpdate reads it, right after it was replaced):
//     what matters is whether a fetch would bring something different and whether one can still be
//     triggered. Exception: routers with held tasks (a delayed ribUpdate reads it on release).
//   - Clock values do not appear: the only comparison the code makes (IsDead) is always taken
//     right after a clock step longer than RouterDeadInterval in which exactly the live neighbours
//     were refreshed (event Dc), so its outcome depends on the live-link set alone.
//   - The router's RIB entry for itself is reduced to "present with cost 0 via itself" (see the
//     comment in the loop below and advertString).
//   - A cost of infinity stored for a next hop behaves exactly like no cost for that next hop
//     (refresh ignores it, Set overwrites it, RemoveNextHop/refresh is a no-op on it).
func (sn *Snap) CanonRouting() string {
	s := sn.s
	var b strings.Builder
	b.WriteString(s.Mode())
	for i, n := range s.Nodes {
		if !n.Up {
			continue
		}
		fmt.Fprintf(&b, "\n[r%d]", i)
		if n.Booting {
			b.WriteString(" BOOTING")
		}
		held := s.HeldAt(i)
		for _, v := range sn.nb[i] {
			act := "p"
			if v.Active {
				act = "a"
			}
			if held && (s.HeldNbr < 0 || s.IdxH(v.NameH) == s.HeldNbr) {
				// A held ribUpdate(ns) of this router reads ns.Advert when it is released, which may be a
				// later advertisement than the one it was spawned for (a further exchange replaces it in
				// the same neighbour entry): while tasks are held the stored advertisements are live
				// state. (Whether the held task's entry is still this one does not matter: an entry
				// created later has been processed by its own ribUpdate, re-applying it changes nothing,
				// exactly like the early return on the deleted entry.) Only the entry of the neighbour
				// the held exchange was with (Sim.HeldNbr) is concerned; the other entries' advertisements
				// stay dead state.
				act += " A{" + advertString(s, v.Advert) + "}"
			}
			if j := s.IdxH(v.NameH); j >= 0 && s.Parallel[key(i, j)] {
				// parallel faces, strictly alternating sync Interests: the stored face is always "the
				// one the next sync Interest will not use"; which of the two it is does not matter
				fmt.Fprintf(&b, " N(%s %s f*%s)", s.shortH(v.NameH), sn.relAt(i, v), act)
				continue
			}
			fmt.Fprintf(&b, " N(%s %s f%d%s)", s.shortH(v.NameH), sn.relAt(i, v), v.FaceId, act)
		}
		for _, e := range sn.rib[i] {
			if s.IdxH(e.NameH) == i && e.Lowest1 == 0 && s.IdxH(e.NextHop1) == i {
				// The router's entry for itself: its costs through neighbours only feed the
				// OtherCost of the self entry of the advertisement, which nobody reads (see
				// advertString); fibUpdate skips the entry. Dead state.
				b.WriteString(" R(self)")
				continue
			}
			cs := make([]string, 0, len(e.Costs))
			for h, c := range e.Costs {
				if c < config.CostInfinity {
					cs = append(cs, fmt.Sprintf("%s:%d", s.shortH(h), c))
				}
			}
			sort.Strings(cs)
			d := ""
			if e.Dirty {
				d = "!"
			}
			fmt.Fprintf(&b, " R(%s%s %s:%d %s:%d {%s})", s.shortH(e.NameH), d, s.shortH(e.NextHop1), e.Lowest1, s.shortH(e.NextHop2), e.Lowest2, strings.Join(cs, ","))
		}
		for _, x := range n.Eng.outbox {
			if x.Kind == KAdvData {
				rel := "old"
				for _, v := range sn.nb[i] {
					if s.IdxH(v.NameH) == x.Target && v.AdvertSeq == x.Seq {
						rel = "cur"
					}
				}
				fmt.Fprintf(&b, " P(adv r%d %s)", x.Target, rel)
			}
		}
	}
	if t := vsched.Pending(); t > 0 {
		fmt.Fprintf(&b, "\nTASKS %d", t)
	}
	for _, f := range s.InFlight {
		rel := "old"
		for _, v := range sn.nb[f.X.From] {
			if s.IdxH(v.NameH) == f.X.Target {
				rel = cmp(f.X.Seq, v.AdvertSeq) // the handler compares the Data's number with the neighbour entry's
			}
		}
		fmt.Fprintf(&b, "\nFLIGHT r%d<r%d seq%s {%s}", f.X.From, f.X.Target, rel, f.Adv)
	}
	if len(s.Held) > 0 {
		// held closures are a function of (state before the operation, operation, cut point)
		fmt.Fprintf(&b, "\nHELD %d tasks of %s", len(s.Held), s.HeldDesc)
	}
	b.WriteString(canonFaces(s)) // "" unless CanonFaces is set (ext_c18.go)
	return b.String()
}

func (s *Sim) CanonRouting() string { return s.Snap().CanonRouting() }

// Fresh reports whether router i already holds router j's current advertisement: the exchange
// X(i<j) would then change nothing but bookkeeping (sequence number, last-seen time) and maps the
// state to the same canonical state.
func (sn *Snap) Fresh(i, j int) bool {
	for _, v := range sn.nb[i] {
		if sn.s.IdxH(v.NameH) == j {
			return sn.relAt(i, v) == "fresh" && (v.FaceId == sn.s.FaceID(i, j) || sn.s.Parallel[key(i, j)]) && v.Active == !sn.s.Passive[[2]int{i, j}]
		}
	}
	return false
}

// Mode is the environment part of the state: which routers are up and which links are live.
func (s *Sim) Mode() string {
	var up, ln []string
	for i, n := range s.Nodes {
		if n.Up {
			up = append(up, fmt.Sprint(i))
		}
	}
	for _, e := range s.G.Edges {
		if s.Live[e] {
			ln = append(ln, fmt.Sprintf("%d%d", e[0], e[1]))
		}
	}
	return "up=" + strings.Join(up, "") + " links=" + strings.Join(ln, "-")
}
