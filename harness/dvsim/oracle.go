package dvsim

import (
	"fmt"
	"sort"
	"strings"

	"github.com/named-data/ndnd/dv/config"
	"github.com/named-data/ndnd/dv/table"
	"verif/shim/vsched"
)

// Finding is an oracle verdict below the level of report.Violation (no history attached).
type Finding struct {
	Clause string
	Key    string
	Detail string
}

// RoutingQuiescent reports whether no default routing event can change anything: nothing parked
// or queued, every router's neighbour table holds exactly its live neighbours, each with an
// advertisement equal to the sender's current one.
func (sn *Snap) RoutingQuiescent() (bool, string) {
	s := sn.s
	if vsched.Pending() > 0 || len(s.Held) > 0 || len(s.InFlight) > 0 {
		return false, "tasks queued or held, or Data in flight"
	}
	for i, n := range s.Nodes {
		if !n.Up {
			continue
		}
		if n.Booting {
			return false, fmt.Sprintf("r%d has not finished booting", i)
		}
		if len(s.Parked(i, KAdvData)) > 0 {
			return false, fmt.Sprintf("r%d has a parked advertisement fetch", i)
		}
		live := s.LiveNeighbors(i)
		seen := 0
		for _, v := range sn.nb[i] {
			j := s.IdxH(v.NameH)
			if j < 0 || !s.LinkLive(i, j) {
				return false, fmt.Sprintf("r%d still lists r%d, which it cannot hear", i, j)
			}
			seen++
			if r := sn.relAt(i, v); !relFresh(r) {
				return false, fmt.Sprintf("r%d holds an advertisement of r%d that differs from r%d's current one (%s)", i, j, j, r)
			}
		}
		if seen != len(live) {
			return false, fmt.Sprintf("r%d has not heard all its live neighbours yet", i)
		}
	}
	return true, ""
}

func (s *Sim) RoutingQuiescent() (bool, string) { return s.Snap().RoutingQuiescent() }

func (sn *Snap) ribOf(i int) map[int]table.VerifRibEntry {
	out := map[int]table.VerifRibEntry{}
	for _, e := range sn.rib[i] {
		if d := sn.s.IdxH(e.NameH); d >= 0 {
			out[d] = e
		}
	}
	return out
}

// BestTables is the digest compared by C18.unique: per router and destination the best cost and
// the chosen next hop.
func (sn *Snap) BestTables() string {
	s := sn.s
	var b strings.Builder
	for i, n := range s.Nodes {
		if !n.Up {
			continue
		}
		fmt.Fprintf(&b, "r%d:", i)
		for _, e := range sn.rib[i] {
			if d := s.IdxH(e.NameH); d >= 0 && d != i {
				fmt.Fprintf(&b, " r%d=%d via %s;", d, e.Lowest1, s.shortH(e.NextHop1))
			}
		}
		b.WriteString(" | ")
	}
	return b.String()
}

// FullTables additionally lists second-best hops and per-neighbour costs (informational).
func (sn *Snap) FullTables() string {
	s := sn.s
	var b strings.Builder
	for i, n := range s.Nodes {
		if !n.Up {
			continue
		}
		fmt.Fprintf(&b, "r%d:", i)
		for _, e := range sn.rib[i] {
			cs := []string{}
			for h, c := range e.Costs {
				if c < config.CostInfinity {
					cs = append(cs, fmt.Sprintf("%s:%d", s.shortH(h), c))
				}
			}
			sort.Strings(cs)
			fmt.Fprintf(&b, " %s=%d via %s, %d via %s {%s};", s.shortH(e.NameH), e.Lowest1, s.shortH(e.NextHop1), e.Lowest2, s.shortH(e.NextHop2), strings.Join(cs, ","))
		}
		b.WriteString(" | ")
	}
	return b.String()
}

// CheckShortest compares every up router's RIB with breadth-first hop distances over the live
// topology. It is meaningful at fixed points only (the caller decides when to call it).
//
//	C18.dist:     reachable destination d: entry present, best cost == hops(i,d) < 16, chosen next hop
//	              is a live neighbour one hop closer to d
//	C18.withdraw: destination not reachable (router down or partitioned away): no RIB entry with a
//	              finite cost and no advertisement entry
func (sn *Snap) CheckShortest() []Finding {
	s := sn.s
	var out []Finding
	up := s.UpVec()
	live := map[[2]int]bool{}
	for e := range s.Live {
		if s.Nodes[e[0]].Up && s.Nodes[e[1]].Up {
			live[e] = true
		}
	}
	dist := make([][]int, s.G.N)
	for i := range dist {
		dist[i] = Distances(s.G.N, live, up, i)
	}
	for i, n := range s.Nodes {
		if !n.Up {
			continue
		}
		rib := sn.ribOf(i)
		for d := 0; d < s.G.N; d++ {
			if d == i {
				continue
			}
			e, has := rib[d]
			finite := has && e.Lowest1 < config.CostInfinity
			h := dist[i][d]
			if h < 0 {
				if finite {
					out = append(out, Finding{"C18.withdraw", "unreachable destination keeps a finite RIB entry at the fixed point",
						fmt.Sprintf("r%d cannot reach r%d in the remaining topology (%s) but its RIB has cost %d via %s", i, d, s.Mode(), e.Lowest1, s.shortH(e.NextHop1))})
				}
				if strings.Contains(","+sn.adv[i], fmt.Sprintf(",r%d>", d)) {
					out = append(out, Finding{"C18.withdraw", "unreachable destination still advertised at the fixed point",
						fmt.Sprintf("r%d cannot reach r%d in the remaining topology (%s) but Rib.Advert() lists it: %s", i, d, s.Mode(), sn.adv[i])})
				}
				continue
			}
			if h >= int(config.CostInfinity) {
				continue // outside the property (hop distance must be below infinity); not reachable with N<=6
			}
			if !finite {
				out = append(out, Finding{"C18.dist", "reachable destination missing from the RIB at the fixed point",
					fmt.Sprintf("r%d is %d hops from r%d (%s) but has no finite RIB entry for it", i, h, d, s.Mode())})
				continue
			}
			if int(e.Lowest1) != h {
				out = append(out, Finding{"C18.dist", "best cost differs from hop distance at the fixed point",
					fmt.Sprintf("r%d -> r%d: RIB cost %d, hop distance %d (%s)", i, d, e.Lowest1, h, s.Mode())})
			}
			// the advertisement must name the chosen next hop (receivers base poison reverse on it)
			for _, a := range sn.raw[i].Entries {
				if a.Destination == nil || s.IdxH(a.Destination.Name.Hash()) != d {
					continue
				}
				if a.NextHop == nil || len(a.NextHop.Name) == 0 || a.NextHop.Name.Hash() != e.NextHop1 {
					got := "(empty)"
					if a.NextHop != nil && len(a.NextHop.Name) > 0 {
						got = a.NextHop.Name.String()
					}
					out = append(out, Finding{"C18.dist", "advertisement does not name the chosen next hop at the fixed point",
						fmt.Sprintf("r%d advertises r%d with next hop %s, its RIB chose %s (%s)", i, d, got, s.shortH(e.NextHop1), s.Mode())})
				}
			}
			nh := s.IdxH(e.NextHop1)
			if nh < 0 || !s.LinkLive(i, nh) || dist[nh][d] != h-1 {
				out = append(out, Finding{"C18.dist", "chosen next hop is not on a shortest path at the fixed point",
					fmt.Sprintf("r%d -> r%d: next hop %s, hop distance %d (%s)", i, d, s.shortH(e.NextHop1), h, s.Mode())})
			}
		}
	}
	return out
}
