package dvsim

import (
	"fmt"
	"os"
	"path/filepath"
	"regexp"
	"strings"
	"sync"
	"time"

	"github.com/named-data/ndnd/dv/tlv"
	enc "github.com/named-data/ndnd/std/encoding"
	"github.com/named-data/ndnd/std/ndn"
	spec "github.com/named-data/ndnd/std/ndn/spec_2022"
	"verif/shim/vsched"
	"verif/shim/vtime"
)

// Values that leave dv.mutex.
//
// The task model of this package runs every spawned function of a router to completion, which is
// exact for functions that hold dv.mutex for their whole body. advertDataOnInterest does not: it
// takes dv.rib.Advert() under the mutex (a closure with a deferred Unlock) and encodes, signs and
// sends the advertisement after releasing it. Any other goroutine of the router may run between
// the two halves. Options.SplitReply makes that a scheduling point of the delivery deviation Xq/Fd:
// the advertisement object is taken when the fetch arrives (VerifAdvertTake) and the rest of the
// handler (VerifAdvertReply) runs when the Data is delivered, after whatever events the search puts
// in between. For code whose Advert() returns a value of its own this is indistinguishable from
// "the Data was in flight" (the state spaces are identical); it differs exactly when the object the
// handler holds changes underneath it.
//
// Oracle (the property's events are "a neighbour fetches the router's current advertisement", and
// "no advertisement ever lists ..." quantifies over what is SENT): the content of the Data that
// leaves must be the router's advertisement as the handler took it (must, for a handler that
// encodes what it took) or as it is when the Data leaves (may: a handler that looks again). Anything
// else is an advertisement of a table the router never had: Sim.AdvTorn. The Data is delivered in
// any case, so the other clauses judge the consequences as well.

var (
	splitOnce    sync.Once
	splitApplies bool
)

// handlerShape is the part of advertDataOnInterest the two hook functions rely on (white space
// normalised): the advertisement is taken in a closure under the mutex and encoded outside it.
var handlerShape = regexp.MustCompile(`content := func\(\) \*tlv\.Advertisement \{ dv\.mutex\.Lock\(\) defer dv\.mutex\.Unlock\(\) return dv\.rib\.Advert\(\) \}\(\)\.Encode\(\)`)

// SplitReplyApplies reports whether advertDataOnInterest of the tree under test still has the
// shape VerifAdvertTake / VerifAdvertReply were copied from. If not, SplitReply is ignored (the
// deviation Xq keeps producing the Data with the whole real handler) and the configuration is
// listed in the evidence (SplitReplyNote).
func SplitReplyApplies() bool {
	splitOnce.Do(func() {
		dir := os.Getenv("VERIF_REPO_DIR")
		if dir == "" {
			dir = "/repo"
		}
		src, err := os.ReadFile(filepath.Join(dir, "dv", "dv", "advert_data.go"))
		if err != nil {
			return
		}
		var b strings.Builder
		for _, l := range strings.Split(string(src), "\n") {
			if i := strings.Index(l, "//"); i >= 0 {
				l = l[:i]
			}
			b.WriteString(strings.TrimSpace(l))
			b.WriteByte(' ')
		}
		splitApplies = handlerShape.MatchString(strings.Join(strings.Fields(b.String()), " "))
	})
	return splitApplies
}

// SplitReplyNote is what the evidence says about the split handler.
func SplitReplyNote() string {
	if SplitReplyApplies() {
		return "advertDataOnInterest has the shape the split handler was copied from (advertisement taken in a closure under dv.mutex, encoded after Unlock): configurations reply=split suspend it between the two halves"
	}
	return "advertDataOnInterest no longer has the shape the split handler was copied from: configurations reply=split fell back to the whole real handler"
}

// finishReply runs the second half of the suspended handler of f and returns the Data it sends.
func (s *Sim) finishReply(f *FlightData) enc.Wire {
	j := f.X.Target
	buf := f.X.Interest.Wire.Join()
	interest, sigCov, err := spec.Spec{}.ReadInterest(enc.NewBufferReader(buf))
	if err != nil {
		return f.Wire
	}
	var reply enc.Wire
	face := s.FaceID(j, f.X.From)
	deadline := vtime.Now().Add(4 * time.Second)
	old := vsched.SetContext(fmt.Sprintf("r%d", j))
	f.proc.VerifAdvertReply(ndn.InterestHandlerArgs{
		Interest: interest, RawInterest: enc.Wire{buf}, SigCovered: sigCov, Deadline: deadline, IncomingFaceId: &face,
		Reply: func(w enc.Wire) error { reply = enc.Wire{w.Join()}; return nil },
	}, f.taken)
	vsched.SetContext(old)
	s.RunTasks()
	if reply == nil {
		s.Problems = append(s.Problems, fmt.Sprintf("split advertisement handler of r%d did not reply", j))
		return f.Wire
	}
	sent := "?"
	if d, _, err := (spec.Spec{}).ReadData(enc.NewWireReader(reply)); err == nil {
		if a, err := tlv.ParseAdvertisement(enc.NewBufferReader(d.Content().Join()), false); err == nil {
			sent = advertStr(s, a, false)
		}
	}
	taken := "?"
	if a, err := tlv.ParseAdvertisement(enc.NewBufferReader(dataContent(f.Wire)), false); err == nil {
		taken = advertStr(s, a, false)
	}
	switch {
	case sent == taken:
		// the copy of the handler's second half must do what the handler does
		// (entry order follows Go map iteration, so the bytes may differ: name and meta information)
		if dataHeader(reply) != dataHeader(f.Wire) {
			s.Problems = append(s.Problems, fmt.Sprintf("split advertisement handler of r%d encodes the same advertisement into a different Data than advertDataOnInterest", j))
		}
	case sent == advertStr(s, f.proc.VerifAdvertTake(), false):
		// the router's advertisement as it is now
	default:
		s.AdvTorn = append(s.AdvTorn, fmt.Sprintf("r%d answers r%d's fetch with {%s}; its advertisement was {%s} when the handler took it under the mutex and is {%s} now",
			j, f.X.From, sent, taken, advertStr(s, f.proc.VerifRib().Advert(), false)))
	}
	return reply
}

func dataHeader(w enc.Wire) string {
	d, _, err := (spec.Spec{}).ReadData(enc.NewWireReader(w))
	if err != nil {
		return "unparseable"
	}
	ct, fr := "-", "-"
	if v := d.ContentType(); v != nil {
		ct = fmt.Sprint(*v)
	}
	if v := d.Freshness(); v != nil {
		fr = fmt.Sprint(*v)
	}
	return fmt.Sprintf("%s type=%s freshness=%s sig=%v", d.Name(), ct, fr, d.Signature().SigType())
}

func dataContent(w enc.Wire) []byte {
	d, _, err := (spec.Spec{}).ReadData(enc.NewWireReader(w))
	if err != nil {
		return nil
	}
	return d.Content().Join()
}

// reuseWire overwrites the memory of an advertisement Data after the requester has processed it.
//
// What the unchanged code still refers to at that point: NeighborState.Advert (advertDataHandler
// parses the content in place and stores the parsed advertisement, whose names point into the
// packet). Only ribUpdate reads it, and the ribUpdate spawned for it has run by now - which is why
// this is not done while tasks are held. The harness reads the stored advertisement too (canonical
// form); it pins its rendering first. Everything the RIB, FIB and neighbour table keep beyond that
// (destination and next-hop names) must be copies.
func (s *Sim) reuseWire(x *Expressed, wire enc.Wire) {
	if s.advPin == nil {
		s.advPin = map[*tlv.Advertisement][2]string{}
	}
	for _, v := range s.Nodes[x.From].DV.VerifNeighbors().VerifDump() {
		if v.Advert != nil && s.IdxH(v.NameH) == x.Target {
			if _, ok := s.advPin[v.Advert]; !ok {
				s.advPin[v.Advert] = [2]string{advertStr(s, v.Advert, true), advertStr(s, v.Advert, false)}
			}
		}
	}
	for _, b := range wire {
		for i := range b {
			b[i] = 0xA5
		}
	}
}
