package bench

import (
	"fmt"
	"testing"

	"verif/harness/dvsim"
)

func apply(s *dvsim.Sim, nm string) {
	var a, b int
	fmt.Sscanf(nm, "X(%d<%d)", &a, &b)
	s.Exchange(a, b)
	s.EndOp()
}

func BenchmarkMachine(b *testing.B) {
	g, _ := dvsim.ParseGraph("n4:02-03-12-13")
	m := dvsim.NewMachine(g, nil, apply)
	var ops []string
	for _, e := range g.Edges {
		ops = append(ops, fmt.Sprintf("X(%d<%d)", e[0], e[1]), fmt.Sprintf("X(%d<%d)", e[1], e[0]))
	}
	visited := map[string]bool{}
	frontier := [][]string{nil}
	n := 0
	b.ResetTimer()
	for len(frontier) > 0 && n < b.N {
		var next [][]string
		for _, h := range frontier {
			for _, op := range ops {
				if n >= b.N {
					break
				}
				n++
				l := m.New()
				for _, o := range h {
					l.Do(o)
				}
				l.Do(op)
				s := l.Sim()
				sn := s.Snap()
				c := sn.CanonRouting()
				sn.RoutingQuiescent()
				sn.CheckShortest()
				if !visited[c] {
					visited[c] = true
					next = append(next, append(append([]string{}, h...), op))
				}
			}
		}
		frontier = next
	}
	b.Logf("states %d stats %+v", len(visited), m.Stats)
}
