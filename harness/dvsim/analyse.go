package dvsim

import (
	"bufio"
	"fmt"
	"os"
	"path/filepath"
	"sort"
	"strings"

	"verif/mc/report"
)

type tEdge struct {
	op     string
	to     string
	dev    bool
	hist   string
	tables string // hash of the target state without freshness labels
}

type tState struct {
	hash   string
	mode   string
	q, ok  bool
	best   string
	detail string
	out    []tEdge // deduplicated on (op,to)
	audit  []tEdge // A lines (twin audit): op, hist, tables
	known  bool    // an S line was seen
	noOps  bool    // a Z line was seen
	closed int     // rounds of a K line (closure by the default fair schedule), 0 = none
	// analysis
	idx, low int
	onStack  bool
	scc      int
	longest  int
}

type tGraph struct {
	cfg    string
	root   string
	states map[string]*tState
	nondet []string // same history, same event, different successor: the code under test is not deterministic
	// same canonical state reached by DIFFERENT histories, same event, different successor: either
	// nondeterminism again or the canonical form merges states with different futures
	suspect []string
	// twin audit: canonical states audited, operations executed from both twins
	auditStates, auditOps int
}

func loadTraces(id string) map[string]*tGraph {
	out := map[string]*tGraph{}
	files, _ := filepath.Glob(filepath.Join(traceDir(id), "*.log"))
	sort.Strings(files)
	for _, fn := range files {
		f, err := os.Open(fn)
		if err != nil {
			report.Fatal("trace: %v", err)
		}
		sc := bufio.NewScanner(f)
		sc.Buffer(make([]byte, 1<<20), 1<<26)
		var g *tGraph
		get := func(h string) *tState {
			st := g.states[h]
			if st == nil {
				st = &tState{hash: h}
				g.states[h] = st
			}
			return st
		}
		for sc.Scan() {
			p := strings.Split(sc.Text(), "\t")
			switch p[0] {
			case "C":
				g = out[p[1]]
				if g == nil {
					g = &tGraph{cfg: p[1], states: map[string]*tState{}}
					out[p[1]] = g
				}
			case "R":
				if len(p) < 3 {
					continue
				}
				g.root = p[1]
				get(p[1])
			case "S":
				if len(p) < 7 {
					continue // torn last line of a killed worker
				}
				st := get(p[1])
				st.known, st.mode, st.q, st.ok, st.best, st.detail = true, p[2], p[3] == "1", p[4] == "1", p[5], p[6]
			case "K":
				if len(p) >= 3 {
					fmt.Sscanf(p[2], "%d", &get(p[1]).closed)
				}
			case "A":
				if len(p) >= 5 {
					st := get(p[1])
					st.audit = append(st.audit, tEdge{op: p[2], hist: p[3], tables: p[4]})
				}
			case "Z":
				if len(p) >= 2 {
					get(p[1]).noOps = true
				}
			case "E":
				if len(p) < 5 {
					continue
				}
				st := get(p[1])
				get(p[2])
				hist, tables := "", p[2]
				if len(p) >= 6 {
					hist = p[5]
				}
				if len(p) >= 7 {
					tables = p[6]
				}
				dup := false
				for _, e := range st.out {
					if e.op == p[4] {
						if e.to == p[2] {
							dup = true
						} else if e.hist == hist {
							if len(g.nondet) < 5 {
								g.nondet = append(g.nondet, fmt.Sprintf("state %s op %s -> %s and %s", p[1], p[4], e.to, p[2]))
							}
						} else if e.tables != tables && len(g.suspect) < 5 {
							g.suspect = append(g.suspect, fmt.Sprintf("state %s (histories %s, %s) op %s -> %s and %s", p[1], e.hist, hist, p[4], e.to, p[2]))
						}
					}
				}
				if !dup {
					st.out = append(st.out, tEdge{op: p[4], to: p[2], dev: p[3] == "1", hist: hist, tables: tables})
				}
			}
		}
		f.Close()
	}
	// twin audit: the successors computed from the second history of a canonical state against those
	// computed from the first one and against the transitions of the search itself
	for _, g := range out {
		hs := make([]string, 0, len(g.states))
		for h, st := range g.states {
			if len(st.audit) > 0 {
				hs = append(hs, h)
			}
		}
		sort.Strings(hs)
		for _, h := range hs {
			st := g.states[h]
			g.auditStates++
			byOp := map[string][]tEdge{}
			for _, e := range st.out {
				byOp[e.op] = append(byOp[e.op], e)
			}
			for _, a := range st.audit {
				if a.op != "(enabled operations)" {
					g.auditOps++
				}
				for _, e := range byOp[a.op] {
					if e.tables != a.tables && e.hist != a.hist && len(g.suspect) < 5 {
						g.suspect = append(g.suspect, fmt.Sprintf("state %s (histories %s, %s) op %s -> %s and %s (twin audit)", h, e.hist, a.hist, a.op, e.tables, a.tables))
					}
				}
				byOp[a.op] = append(byOp[a.op], a)
			}
		}
	}
	return out
}

// pathTo returns the op names of a shortest recorded path from the root to target.
func (g *tGraph) pathTo(target string) []string {
	type pr struct {
		prev string
		op   string
	}
	prev := map[string]pr{g.root: {}}
	q := []string{g.root}
	for len(q) > 0 && target != g.root {
		u := q[0]
		q = q[1:]
		for _, e := range g.states[u].out {
			if _, ok := prev[e.to]; !ok {
				prev[e.to] = pr{u, e.op}
				if e.to == target {
					q = nil
					break
				}
				q = append(q, e.to)
			}
		}
	}
	if _, ok := prev[target]; !ok {
		return nil
	}
	var ops []string
	for cur := target; cur != g.root; cur = prev[cur].prev {
		ops = append([]string{prev[cur].op}, ops...)
	}
	return ops
}

// ConfigSummary is what the evidence file records per configuration.
type ConfigSummary struct {
	Config            string   `json:"config"`
	States            int      `json:"states"`
	Expanded          int      `json:"expanded_states"`
	Modes             int      `json:"live_topologies"`
	FixedPoints       int      `json:"fixed_points"`
	DistinctTables    int      `json:"distinct_fixed_point_tables"`
	NontrivialSCCs    int      `json:"nontrivial_sccs"`
	FairCycles        int      `json:"fair_cycles"`
	MaxEventsToFixed  int      `json:"max_state_changing_events_to_fixed_point"`
	FromColdStart     int      `json:"max_state_changing_events_from_cold_start"`
	Partial           bool     `json:"partial,omitempty"`
	Unexpanded        int      `json:"unexpanded_states"`
	ClosedByDefault   int      `json:"unexpanded_states_driven_to_fixed_point_by_round_robin"`
	MaxClosingRounds  int      `json:"max_closing_rounds"`
	Nondeterministic  []string `json:"nondeterministic_transitions,omitempty"`
	UnboundedUnfairly bool     `json:"unbounded_without_fairness,omitempty"`
	// twin audit of the canonical form (twins.go)
	TwinStates int `json:"canonical_states_audited_from_two_histories,omitempty"`
	TwinOps    int `json:"operations_executed_from_both_twins,omitempty"`
}

// AnalyseC18 rebuilds the explored state graphs and decides C18.fix and C18.unique on them.
func AnalyseC18(rep *report.Reporter, cov report.Coverage) {
	graphs := loadTraces("C18")
	names := make([]string, 0, len(graphs))
	for n := range graphs {
		names = append(names, n)
	}
	sort.Strings(names)
	var sums []ConfigSummary
	worstBound := 0
	for _, n := range names {
		if g := graphs[n]; len(g.suspect) > 0 && len(g.nondet) == 0 && rep.Count() == 0 && len(FallbackConfigs("C18")) == 0 {
			report.Fatal("C18 analysis: in %q the same canonical state, reached by different histories, has different successors for the same event although the code under test showed no nondeterminism: the canonical form merges states with different futures: %v", n, g.suspect)
		}
	}
	for _, n := range names {
		s := analyse(graphs[n], rep)
		sums = append(sums, s)
		if s.MaxEventsToFixed > worstBound {
			worstBound = s.MaxEventsToFixed
		}
	}
	cov["graph_analysis"] = sums
	ts, to := 0, 0
	for _, s := range sums {
		ts += s.TwinStates
		to += s.TwinOps
	}
	cov["canonical_form_twin_audit"] = map[string]any{"canonical_states_audited_from_two_histories": ts, "operations_executed_from_both_twins": to,
		"rule": "for a canonical state reached by two different histories every enabled operation (deviations included) is executed from both; equal canonical state must give equal canonical successors, else CHECK-ERROR"}
	cov["max_state_changing_events_to_fixed_point_any_config"] = worstBound
}

func analyse(g *tGraph, rep *report.Reporter) ConfigSummary {
	sum := ConfigSummary{Config: g.cfg, States: len(g.states), Nondeterministic: g.nondet, TwinStates: g.auditStates, TwinOps: g.auditOps / 2}
	add := func(clause, key, detail string, st string, extra []string) {
		ops := g.pathTo(st)
		ops = append(ops, extra...)
		rep.Add(report.Violation{Clause: clause, Key: key,
			Detail: "[" + g.cfg + "] after " + strings.Join(ops, " ; ") + " :: " + detail,
			Replay: map[string]any{"config": g.cfg, "ops": ops}})
	}
	if len(g.nondet) > 0 {
		rep.Add(report.Violation{Clause: "C18.unique", Key: "the same event in the same state has different outcomes (map-iteration order)",
			Detail: "[" + g.cfg + "] " + strings.Join(append(append([]string{}, g.nondet...), g.suspect...), "; "), Replay: map[string]any{"config": g.cfg}})
	}
	// expanded = has at least one recorded outgoing transition
	hashes := make([]string, 0, len(g.states))
	for h, st := range g.states {
		hashes = append(hashes, h)
		if !st.known {
			sum.Partial = true
		}
	}
	sort.Strings(hashes)
	expanded := func(st *tState) bool { return len(st.out) > 0 || st.noOps }
	terminal := func(st *tState) bool {
		if !expanded(st) {
			return false
		}
		for _, e := range st.out {
			if !e.dev && e.to != st.hash {
				return false
			}
		}
		return true
	}
	// default-edge subgraph: default edges never change the mode, so SCCs stay within one mode.
	// Tarjan, iterative.
	index := 0
	var stack []*tState
	nscc := 0
	sccs := [][]*tState{}
	type frame struct {
		st *tState
		ei int
	}
	for _, h := range hashes {
		root := g.states[h]
		if root.idx != 0 {
			continue
		}
		fr := []frame{{root, 0}}
		index++
		root.idx, root.low = index, index
		stack = append(stack, root)
		root.onStack = true
		for len(fr) > 0 {
			f := &fr[len(fr)-1]
			if f.ei < len(f.st.out) {
				e := f.st.out[f.ei]
				f.ei++
				if e.dev {
					continue
				}
				w := g.states[e.to]
				if w.idx == 0 {
					index++
					w.idx, w.low = index, index
					stack = append(stack, w)
					w.onStack = true
					fr = append(fr, frame{w, 0})
				} else if w.onStack && w.idx < f.st.low {
					f.st.low = w.idx
				}
				continue
			}
			v := f.st
			fr = fr[:len(fr)-1]
			if len(fr) > 0 {
				p := fr[len(fr)-1].st
				if v.low < p.low {
					p.low = v.low
				}
			}
			if v.low == v.idx {
				var comp []*tState
				for {
					w := stack[len(stack)-1]
					stack = stack[:len(stack)-1]
					w.onStack = false
					w.scc = nscc
					comp = append(comp, w)
					if w == v {
						break
					}
				}
				sccs = append(sccs, comp)
				nscc++
			}
		}
	}
	modes := map[string]bool{}
	tables := map[string]map[string]string{} // mode -> best tables -> a state hash
	for _, h := range hashes {
		st := g.states[h]
		if st.known {
			modes[st.mode] = true
		}
		if expanded(st) {
			sum.Expanded++
		} else {
			sum.Unexpanded++
			if st.closed > 0 {
				sum.ClosedByDefault++
			}
		}
		if st.closed > sum.MaxClosingRounds {
			sum.MaxClosingRounds = st.closed
		}
		if !terminal(st) {
			if st.q && expanded(st) {
				// every router holds its live neighbours' current advertisements, nothing is parked,
				// queued or held - and yet a default event (time passing with stable links) changes the
				// state: the fixed point is not kept
				var evs []string
				for _, e := range st.out {
					if !e.dev && e.to != st.hash {
						evs = append(evs, e.op)
					}
				}
				add("C18.fix", "fixed point is not kept: with stable links and nothing outstanding a default event changes the tables",
					fmt.Sprintf("state %s (%s) is changed by %v", st.best, st.mode, evs), h, evs[:1])
			}
			continue
		}
		sum.FixedPoints++
		if !st.q {
			add("C18.fix", "stuck state: no event changes anything but the tables are not a fixed point of the exchange relation",
				"state "+st.best+" ("+st.mode+")", h, nil)
		}
		if !st.ok && !st.q {
			p := strings.SplitN(st.detail, "|", 3)
			if len(p) == 3 {
				add(p[0], p[1], p[2], h, nil)
			}
		}
		if tables[st.mode] == nil {
			tables[st.mode] = map[string]string{}
		}
		if _, ok := tables[st.mode][st.best]; !ok {
			tables[st.mode][st.best] = h
		}
	}
	sum.Modes = len(modes)
	for m, t := range tables {
		if len(t) > sum.DistinctTables {
			sum.DistinctTables = len(t)
		}
		if len(t) > 1 {
			var alts []string
			var first string
			for b, h := range t {
				alts = append(alts, b)
				if first == "" || h < first {
					first = h
				}
			}
			sort.Strings(alts)
			add("C18.unique", "different event orders end in different routing tables for the same live topology",
				fmt.Sprintf("%s: %d distinct fixed-point tables, e.g. {%s} vs {%s}", m, len(t), alts[0], alts[1]), first, nil)
		}
	}
	// SCC classification. sccs are produced in reverse topological order (successors first).
	sccLongest := make([]int, nscc)
	unbounded := make([]bool, nscc)
	for ci, comp := range sccs {
		in := map[string]bool{}
		for _, st := range comp {
			in[st.hash] = true
		}
		nontrivial := len(comp) > 1
		leaves := false
		expandedAll := true
		best := 0
		for _, st := range comp {
			if !expanded(st) {
				expandedAll = false
			}
			for _, e := range st.out {
				if e.dev || in[e.to] {
					continue
				}
				leaves = true
				w := g.states[e.to]
				if sccLongest[w.scc]+1 > best {
					best = sccLongest[w.scc] + 1
				}
				if unbounded[w.scc] {
					unbounded[ci] = true
				}
			}
		}
		sccLongest[ci] = best
		if !expandedAll {
			sum.Partial = true
		}
		if !nontrivial {
			st := comp[0]
			if !leaves && expanded(st) && !terminal(st) {
				// cannot happen: a single state whose default edges all stay inside is terminal
				report.Fatal("C18 analysis: inconsistent SCC classification for %s", st.hash)
			}
			continue
		}
		sum.NontrivialSCCs++
		unbounded[ci] = true
		// events of this SCC
		events := map[string]bool{}
		for _, st := range comp {
			for _, e := range st.out {
				if !e.dev {
					events[e.op] = true
				}
			}
		}
		fair := true
		for ev := range events {
			sat := false
			for _, st := range comp {
				if !expanded(st) {
					continue
				}
				enabled := false
				for _, e := range st.out {
					if e.op == ev && !e.dev {
						enabled = true
						if in[e.to] {
							sat = true
						}
					}
				}
				if !enabled {
					sat = true
				}
				if sat {
					break
				}
			}
			if !sat {
				fair = false
				break
			}
		}
		if !expandedAll {
			continue
		}
		if !leaves {
			add("C18.fix", "a set of states closed under every event contains no fixed point (routing never converges)",
				fmt.Sprintf("%d states, e.g. %s", len(comp), comp[0].best), comp[0].hash, nil)
		} else if fair {
			sum.FairCycles++
			add("C18.fix", "a fair infinite event order avoids the fixed point forever",
				fmt.Sprintf("strongly connected set of %d states in which every event can be taken without leaving the set, e.g. %s", len(comp), comp[0].best), comp[0].hash, nil)
		}
	}
	for _, h := range hashes {
		st := g.states[h]
		if unbounded[st.scc] {
			sum.UnboundedUnfairly = true
			continue
		}
		if sccLongest[st.scc] > sum.MaxEventsToFixed {
			sum.MaxEventsToFixed = sccLongest[st.scc]
		}
	}
	if r := g.states[g.root]; r != nil {
		sum.FromColdStart = sccLongest[r.scc]
	}
	return sum
}
