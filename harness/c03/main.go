// C03: Interest and Data packets survive encode->decode unchanged for all field values.
//
// Bounded exhaustive input enumeration on the real packet API: every base description of
// verif/harness/pktgen plus ALL combinations of <=k deviations from boundary domains is built with
// spec.Spec{}.MakeInterest/MakeData and checked by four clauses:
//
//	C03.wf   an independent TLV walker (pktgen/walker.go, shares no code with std/encoding) accepts
//	         the bytes: nesting correct, every length exact, numbers in shortest form;
//	C03.rt   ReadInterest/ReadData/ReadPacket on the contiguous bytes return exactly the fields,
//	         content and signature value that were put in;
//	C03.seg  decoding through enc.NewWireReader for every enumerated segmentation (including wires
//	         with EMPTY segments: repeated cut offsets, cuts at 0 / at the end, the encoder's own
//	         wire verbatim) gives the same result as the contiguous decode (and does not panic);
//	         decoding leaves the Wire it was given intact (segment list and bytes compared with a
//	         private copy after every decode) and a second decode of the same Wire gives the same;
//	C03.name Name.Bytes/Component.Bytes equal the bytes the packet encoder wrote for the same
//	         name/component, and NameFromBytes/ComponentFromBytes return what they were given.
package main

import (
	"bytes"
	"crypto/sha256"
	"encoding/binary"
	"encoding/hex"
	"encoding/json"
	"fmt"
	"io"
	"os"
	"os/exec"
	"regexp"
	"runtime/debug"
	"sort"
	"strconv"
	"strings"
	"sync"
	"sync/atomic"
	"time"

	enc "github.com/named-data/ndnd/std/encoding"
	"github.com/named-data/ndnd/std/ndn"
	spec "github.com/named-data/ndnd/std/ndn/spec_2022"
	"verif/harness/pktgen"
	"verif/mc/enum"
	"verif/mc/report"
)

// ---------------------------------------------------------------------------------------------
// field sink: a flat, comparable rendering of a decoded (or expected) packet

type sink struct {
	buf   []byte
	marks []int
	names []string
	slow  bool
}

func (s *sink) reset(slow bool) {
	s.buf, s.marks, s.names, s.slow = s.buf[:0], s.marks[:0], s.names[:0], slow
}
func (s *sink) field(name string) {
	if s.slow {
		s.marks = append(s.marks, len(s.buf))
		s.names = append(s.names, name)
	}
	s.buf = append(s.buf, 0xfa, 0xce)
}
func (s *sink) u64(v uint64)   { s.buf = binary.BigEndian.AppendUint64(s.buf, v) }
func (s *sink) bytes(b []byte) { s.u64(uint64(len(b))); s.buf = append(s.buf, b...) }
func (s *sink) flag(b bool) {
	if b {
		s.buf = append(s.buf, 1)
	} else {
		s.buf = append(s.buf, 0)
	}
}
func (s *sink) name(n enc.Name) {
	s.u64(uint64(len(n)))
	for _, c := range n {
		s.u64(uint64(c.Typ))
		s.bytes(c.Val)
	}
}
func (s *sink) wire(w enc.Wire) {
	n := 0
	for _, b := range w {
		n += len(b)
	}
	s.u64(uint64(n))
	for _, b := range w {
		s.buf = append(s.buf, b...)
	}
}
func (s *sink) optU64(p *uint64) {
	s.flag(p != nil)
	if p != nil {
		s.u64(*p)
	}
}
func (s *sink) optDur(p *time.Duration) {
	s.flag(p != nil)
	if p != nil {
		s.u64(uint64(*p))
	}
}
func (s *sink) optTimeMs(p *time.Time) {
	s.flag(p != nil)
	if p != nil {
		s.u64(uint64(p.UnixMilli()))
	}
}
func (s *sink) optTimeSec(p *time.Time) {
	s.flag(p != nil)
	if p != nil {
		s.u64(uint64(p.Unix()))
	}
}

// diff names the first field in which two slow sinks differ.
func diff(a, b *sink) string {
	for i := range a.names {
		if i >= len(b.names) {
			break
		}
		ae, be := len(a.buf), len(b.buf)
		if i+1 < len(a.marks) {
			ae = a.marks[i+1]
		}
		if i+1 < len(b.marks) {
			be = b.marks[i+1]
		}
		if !bytes.Equal(a.buf[a.marks[i]:ae], b.buf[b.marks[i]:be]) {
			return a.names[i]
		}
	}
	return "?"
}

func putSig(s *sink, sg ndn.Signature, data bool) {
	s.field("signature type")
	s.u64(uint64(int64(sg.SigType())))
	s.field("key locator name")
	s.name(sg.KeyName())
	s.field("signature nonce")
	s.bytes(sg.SigNonce())
	s.field("signature time")
	s.optTimeMs(sg.SigTime())
	s.field("signature seq num")
	s.optU64(sg.SigSeqNum())
	s.field("validity period")
	nb, na := sg.Validity()
	s.optTimeSec(nb)
	s.optTimeSec(na)
	s.field("signature value")
	s.bytes(sg.SigValue())
}

func putInterest(s *sink, i ndn.Interest) {
	s.field("name")
	s.name(i.Name())
	s.field("CanBePrefix")
	s.flag(i.CanBePrefix())
	s.field("MustBeFresh")
	s.flag(i.MustBeFresh())
	s.field("forwarding hint")
	h := i.ForwardingHint()
	s.u64(uint64(len(h)))
	for _, n := range h {
		s.name(n)
	}
	s.field("nonce")
	s.optU64(i.Nonce())
	s.field("lifetime")
	s.optDur(i.Lifetime())
	s.field("hop limit")
	if p := i.HopLimit(); p != nil {
		v := uint64(*p)
		s.optU64(&v)
	} else {
		s.optU64(nil)
	}
	s.field("application parameters")
	s.flag(i.AppParam() != nil)
	s.wire(i.AppParam())
	putSig(s, i.Signature(), false)
}

func putData(s *sink, d ndn.Data) {
	s.field("name")
	s.name(d.Name())
	s.field("content type")
	if p := d.ContentType(); p != nil {
		v := uint64(*p)
		s.optU64(&v)
	} else {
		s.optU64(nil)
	}
	s.field("freshness period")
	s.optDur(d.Freshness())
	s.field("final block id")
	if f := d.FinalBlockID(); f != nil {
		s.flag(true)
		s.u64(uint64(f.Typ))
		s.bytes(f.Val)
	} else {
		s.flag(false)
	}
	s.field("content")
	s.flag(d.Content() != nil)
	s.wire(d.Content())
	putSig(s, d.Signature(), true)
}

// expSig is what the recording signer says the decoded signature must look like.
type expSig struct {
	typ          ndn.SigType
	key          enc.Name
	nonce        []byte
	time, nb, na *time.Time
	seq          *uint64
	val          []byte
}

func (e expSig) SigType() ndn.SigType        { return e.typ }
func (e expSig) KeyName() enc.Name           { return e.key }
func (e expSig) SigNonce() []byte            { return e.nonce }
func (e expSig) SigTime() *time.Time         { return e.time }
func (e expSig) SigSeqNum() *uint64          { return e.seq }
func (e expSig) Validity() (a, b *time.Time) { return e.nb, e.na }
func (e expSig) SigValue() []byte            { return e.val }

func expectedSig(b *pktgen.Built) expSig {
	e := expSig{typ: ndn.SignatureNone}
	if b.Rec == nil || b.Rec.Cfg == nil || b.Rec.Cfg.Type == ndn.SignatureNone {
		return e
	}
	c := b.Rec.Cfg
	e.typ = c.Type
	e.key = c.KeyName
	if b.Desc.Interest {
		e.nonce, e.time, e.seq = c.Nonce, c.SigTime, c.SeqNum
		if c.Type == ndn.SignatureDigestSha256 {
			e.key = nil // MakeInterest does not emit a KeyLocator for DigestSha256
		}
	} else {
		e.nb, e.na = c.NotBefore, c.NotAfter
	}
	if b.Rec.Asked {
		e.val = b.Rec.SigVal
	}
	return e
}

// expectedName computes the name the decoder must return (candidates: see below).
func expectedNames(b *pktgen.Built, root *pktgen.Node) []enc.Name {
	in := b.Name
	if !b.Desc.Interest {
		return []enc.Name{in}
	}
	cands := []enc.Name{in}
	if n := len(in); n > 0 && in[n-1].Typ == enc.TypeParametersSha256DigestComponent {
		// A trailing ParametersSha256Digest component in the *input* name: the property is silent
		// on whether the API keeps or replaces it; both are accepted.
		cands = append(cands, in[:n-1:n-1])
	}
	if b.Desc.PaySize == -1 {
		return cands
	}
	// with parameters: the name gains a digest component over ApplicationParameters..end
	var dig []byte
	if root != nil {
		if ap := root.Kid(0x24); ap != nil {
			h := sha256.Sum256(b.Bytes[ap.Start:root.End])
			dig = h[:]
		}
	}
	if dig == nil && len(b.FinalNm) > 0 {
		dig = b.FinalNm[len(b.FinalNm)-1].Val
	}
	var out []enc.Name
	for _, c := range cands {
		n := append(enc.Name{}, c...)
		out = append(out, append(n, enc.Component{Typ: enc.TypeParametersSha256DigestComponent, Val: dig}))
	}
	if len(out) == 2 {
		out[0], out[1] = out[1], out[0] // the API strips a trailing digest first; prefer that reading
	}
	return out
}

func putExpected(s *sink, b *pktgen.Built, name enc.Name) {
	d := b.Desc
	if d.Interest {
		s.field("name")
		s.name(name)
		s.field("CanBePrefix")
		s.flag(d.CanBePrefix)
		s.field("MustBeFresh")
		s.flag(d.MustBeFresh)
		s.field("forwarding hint")
		s.u64(uint64(len(b.Hint)))
		for _, n := range b.Hint {
			s.name(n)
		}
		s.field("nonce")
		s.optU64(d.Nonce)
		s.field("lifetime")
		s.optDur(d.Lifetime)
		s.field("hop limit")
		if d.HopLimit != nil {
			v := uint64(*d.HopLimit)
			s.optU64(&v)
		} else {
			s.optU64(nil)
		}
		s.field("application parameters")
		s.flag(d.PaySize != -1)
		s.bytes(d.PayloadBytes())
	} else {
		s.field("name")
		s.name(name)
		s.field("content type")
		s.optU64(d.ContentType)
		s.field("freshness period")
		s.optDur(d.Freshness)
		s.field("final block id")
		if b.Final != nil {
			s.flag(true)
			s.u64(uint64(b.Final.Typ))
			s.bytes(b.Final.Val)
		} else {
			s.flag(false)
		}
		s.field("content")
		s.flag(d.PaySize != -1)
		s.bytes(d.PayloadBytes())
	}
	putSig(s, expectedSig(b), !d.Interest)
}

// decode runs the real decoder; the sink receives the result. ok=false: error or panic (msg).
func decode(interest bool, r enc.ParseReader, s *sink, slow bool) (ok bool, msg string) {
	s.reset(slow)
	defer func() {
		if rc := recover(); rc != nil {
			ok, msg = false, "panic "+pktgen.PanicSite(rc)
		}
	}()
	if interest {
		i, _, err := spec.Spec{}.ReadInterest(r)
		if err != nil {
			return false, "error: " + errClass(err)
		}
		putInterest(s, i)
	} else {
		d, _, err := spec.Spec{}.ReadData(r)
		if err != nil {
			return false, "error: " + errClass(err)
		}
		putData(s, d)
	}
	return true, ""
}

func decodePacket(interest bool, buf []byte, s *sink) (ok bool, msg string) {
	s.reset(true)
	defer func() {
		if rc := recover(); rc != nil {
			ok, msg = false, "panic "+pktgen.PanicSite(rc)
		}
	}()
	p, _, err := spec.ReadPacket(enc.NewBufferReader(buf))
	if err != nil {
		return false, "error: " + errClass(err)
	}
	switch {
	case interest && p.Interest != nil:
		putInterest(s, p.Interest)
	case !interest && p.Data != nil:
		putData(s, p.Data)
	default:
		return false, "error: ReadPacket returned the wrong packet kind"
	}
	return true, ""
}

// errClass renders an error without the concrete numbers (so that it can be part of a key).
func errClass(err error) string {
	s := err.Error()
	out := make([]byte, 0, len(s))
	for i := 0; i < len(s); i++ {
		c := s[i]
		if c >= '0' && c <= '9' {
			if len(out) == 0 || out[len(out)-1] != 'N' {
				out = append(out, 'N')
			}
			continue
		}
		out = append(out, c)
	}
	if len(out) > 120 {
		out = out[:120]
	}
	return string(out)
}

// ---------------------------------------------------------------------------------------------

type stats struct {
	mu                                                                         sync.Mutex
	built                                                                      int64
	rejected                                                                   map[string]int
	distinct                                                                   map[[16]byte]bool
	decodes                                                                    int64
	segmentations                                                              int64
	perDepth                                                                   [3]int64
	cuts1, cuts2, cuts3, natural                                               int64
	naturalVerbatim, naturalWithEmpty, emptySegWires, secondDecodes            int64
	fullSeg, headerSeg                                                         int64
	maxLen                                                                     int
	nameChecks                                                                 int64
	mayReject                                                                  int64
	ecdsaRepeatBuilds                                                          int64
	ecdsaSigLens                                                               map[string]bool
	sweepCases, sweepBuilds, sweepCross253, sweepCross65536, sweepCasesCrossed int64
	nsBuild, nsRt, nsName, nsSeg                                               [3]int64 // by plan class: 0 full, 1 quick-2dev small, 2 large
	evaluated                                                                  int64
}

var (
	rep     *report.Reporter
	st      = &stats{rejected: map[string]int{}, distinct: map[[16]byte]bool{}, ecdsaSigLens: map[string]bool{}}
	samples report.Samples
)

// One root cause, one key: when the input has a name component value of 253+ bytes AND the
// independent walker rejects the encoded packet inside a name component, every symptom of that
// packet is reported under a single key per clause (the concrete symptom goes into Detail). All
// other symptoms keep their specific key. C03.seg is never collapsed: it only runs on
// packets whose contiguous decode already equals the input.
var collapsed = map[string]string{
	"C03.wf":   "packet with a name component value of 253+ bytes is not a well-formed TLV",
	"C03.rt":   "packet with a name component value of 253+ bytes does not decode back to its input",
	"C03.name": "component value of 253+ bytes: standalone component/name codec does not round-trip or differs from the packet encoder",
}

// pending keeps, per (clause,key), the violation from the smallest case index (cases are
// evaluated concurrently; within a case evaluation is sequential), so that Detail and Replay are
// the same on every run.
type pend struct {
	idx int64
	v   report.Violation
}

var violCase sync.Map // case index -> true if any clause failed for it

var (
	pendMu  sync.Mutex
	pending = map[string]*pend{}
	nViol   int64
)

func addV(d *pktgen.Desc, clause, key, detail string, replay map[string]any) {
	if mal, _ := replay["malformed_name_component"].(bool); mal && d.BigComp() && collapsed[clause] != "" {
		detail = key + " :: " + detail
		key = collapsed[clause]
	}
	if _, cr := replay["outer_length_field_shrinks"]; cr && (clause == "C03.wf" || clause == "C03.rt") {
		detail = key + " :: " + detail
		key = "packet whose outer length field gets shorter after signing (signature shorter than the signer's estimate) " +
			map[string]string{"C03.wf": "is not a well-formed TLV", "C03.rt": "does not decode back to its input"}[clause]
	}
	if d.Interest && (d.PaySize == 0 || d.PaySize == -2) && strings.Contains(key, "decode fails") {
		key += " [present-but-empty parameters]"
	}
	if d.ManyEmpty() && strings.Contains(key, "decode fails") {
		key += " [a name with 4+ zero-length components]"
	}
	key += d.SizeWord() // signature-size dimension: which length form, signature as long as / shorter than the estimate
	idx, _ := replay["case_index"].(int64)
	atomic.AddInt64(&nViol, 1)
	violCase.Store(idx, true)
	pendMu.Lock()
	defer pendMu.Unlock()
	k := clause + "|" + key
	if p, ok := pending[k]; ok && p.idx <= idx {
		return
	}
	pending[k] = &pend{idx, report.Violation{Clause: clause, Key: key, Detail: detail, Replay: replay}}
}

func flushPending() {
	keys := make([]string, 0, len(pending))
	for k := range pending {
		keys = append(keys, k)
	}
	sort.Strings(keys)
	for _, k := range keys {
		rep.Add(pending[k].v)
	}
}

func hexCap(b []byte) string {
	if len(b) > 600 {
		return hex.EncodeToString(b[:300]) + "..." + hex.EncodeToString(b[len(b)-100:]) + fmt.Sprintf(" (%d bytes)", len(b))
	}
	return hex.EncodeToString(b)
}

func kind(d *pktgen.Desc) string {
	if d.Interest {
		return "Interest"
	}
	return "Data"
}

type segPlan struct {
	full       bool // every 1-cut and 2-cut
	cuts3      bool // every 3-cut as well
	pairs      bool // header positions: pairs as well
	headerOnly bool
}

func evalCase(sp *pktgen.Space, idx int64, c pktgen.Case, thorough bool) {
	d, ok := sp.Desc(c)
	if !ok {
		return
	}
	atomic.AddInt64(&st.perDepth[len(c.Devs)], 1)
	evalDesc(idx, sp.Label(c), d, len(c.Devs), thorough, false)
}

// evalDesc builds one description and runs all clauses on it. depth selects the segmentation
// plan (number of deviations); light = only C03.wf and C03.rt (repeated builds of a sweep case).
func evalDesc(idx int64, label string, d pktgen.Desc, depth int, thorough, light bool) *pktgen.Built {
	t0 := time.Now()
	b := pktgen.Build(&d)
	t1 := time.Now()
	atomic.AddInt64(&st.evaluated, 1)
	replay := map[string]any{"case": label, "desc": d.String(), "case_index": idx}
	if b.Panic != "" {
		addV(&d, "C03.wf", "packet API panics: "+b.Panic, "building "+d.String()+" panicked: "+b.Panic, replay)
		return b
	}
	if b.Err != nil && b.Rec != nil && b.Rec.Asked && len(b.Rec.SigVal) > int(b.Rec.Inner.EstimateSize()) {
		// not a free choice of the API: the shipped signer returned a signature longer than the
		// size it announced itself, so a packet it can sign is not built
		addV(&d, "C03.wf", fmt.Sprintf("a shipped signer's signature is longer than its own EstimateSize, the packet API refuses the packet (%s signer)", b.SignerSp.Name),
			fmt.Sprintf("%s: EstimateSize()=%d, ComputeSigValue returned %d bytes: %v", d.String(), b.Rec.Inner.EstimateSize(), len(b.Rec.SigVal), b.Err), replay)
		return b
	}
	if b.Err != nil {
		st.mu.Lock()
		st.rejected[kind(&d)+": "+errClass(b.Err)]++
		st.mu.Unlock()
		return b
	}
	atomic.AddInt64(&st.built, 1)
	replay["bytes"] = hexCap(b.Bytes)
	h := sha256.Sum256(b.Bytes)
	var hk [16]byte
	copy(hk[:], h[:16])

	// bigName: some name handed to the standalone codec has a value (its components' encodings)
	// of 253+ bytes
	bigName := false
	nameLen := func(n enc.Name) int {
		l := 0
		for _, c := range n {
			l += len(refNum(uint64(c.Typ))) + len(refNum(uint64(len(c.Val)))) + len(c.Val)
		}
		return l
	}
	pnm := b.Name
	if d.Interest {
		pnm = b.FinalNm
	}
	if nameLen(pnm) >= 253 {
		bigName = true
	}
	for _, hn := range b.Hint {
		if nameLen(hn) >= 253 {
			bigName = true
		}
	}

	// ---- C03.wf
	root, werr := pktgen.Walk(b.Bytes)
	if _, _, shrink, crosses := b.OuterLengths(); crosses && werr != "" && !strings.Contains(werr, "/") {
		// the signature came out shorter than estimated, the outer length field itself had to
		// shrink (3 -> 1 or 5 -> 3 bytes) and the walker rejects the OUTER element: one key
		replay["outer_length_field_shrinks"] = shrink
	}
	if werr != "" && (strings.Contains(werr, "0x7/") || strings.Contains(werr, "0x1a/")) {
		// the walker stopped inside a name / FinalBlockId component: with a 253+-byte component
		// value in the input, every further symptom of this packet goes under the collapsed key
		replay["malformed_name_component"] = true
	}
	if werr != "" {
		addV(&d, "C03.wf", kind(&d)+" not a well-formed TLV: "+werr,
			fmt.Sprintf("%s encodes to %d bytes that the independent TLV walker rejects: %s", d.String(), len(b.Bytes), werr), replay)
	} else if (d.Interest && root.Typ != 5) || (!d.Interest && root.Typ != 6) {
		addV(&d, "C03.wf", kind(&d)+" has the wrong outer type", d.String(), replay)
	}

	// ---- C03.rt
	var ref, got, exp sink
	okRef, msg := decode(d.Interest, enc.NewBufferReader(b.Bytes), &ref, true)
	atomic.AddInt64(&st.decodes, 1)
	if !okRef && d.Interest && d.PaySize == -1 && len(b.Name) > 0 && b.Name[len(b.Name)-1].Typ == enc.TypeParametersSha256DigestComponent &&
		strings.Contains(msg, "digest is missing or incorrect") {
		// The input name ends in ParametersSha256Digest component(s) although the Interest has no
		// parameters. The packet format calls such an Interest invalid; the property does not say
		// whether the API must refuse, repair or faithfully encode it, nor whether the decoder
		// may then reject it. Every answer is accepted.
		atomic.AddInt64(&st.mayReject, 1)
		return b
	}
	if !okRef {
		addV(&d, "C03.rt", kind(&d)+" contiguous decode fails: "+msg,
			fmt.Sprintf("%s: ReadInterest/ReadData on the %d bytes just built: %s", d.String(), len(b.Bytes), msg), replay)
	} else {
		cands := expectedNames(b, root)
		best := ""
		for i, nm := range cands {
			exp.reset(true)
			putExpected(&exp, b, nm)
			if bytes.Equal(exp.buf, ref.buf) {
				best = ""
				break
			}
			if i == 0 {
				best = diff(&exp, &ref)
			}
		}
		if best != "" {
			addV(&d, "C03.rt", kind(&d)+" decoded "+best+" differs from the input",
				fmt.Sprintf("%s: after encode->decode the %s is not what was put in", d.String(), best), replay)
		}
		if d.Interest && len(b.FinalNm) > 0 {
			exp.reset(true)
			exp.field("name")
			exp.name(b.FinalNm)
			got.reset(true)
			if i, _, err := (spec.Spec{}).ReadInterest(enc.NewBufferReader(b.Bytes)); err == nil {
				got.field("name")
				got.name(i.Name())
				if !bytes.Equal(exp.buf, got.buf) {
					addV(&d, "C03.rt", "EncodedInterest.FinalName differs from the decoded name", d.String(), replay)
				}
			}
		}
		okP, msgP := decodePacket(d.Interest, b.Bytes, &got)
		atomic.AddInt64(&st.decodes, 1)
		if !okP {
			addV(&d, "C03.rt", kind(&d)+" ReadPacket fails where Read"+kind(&d)+" succeeds: "+msgP, d.String(), replay)
		} else if !bytes.Equal(got.buf, ref.buf) {
			addV(&d, "C03.rt", kind(&d)+" ReadPacket result differs from Read"+kind(&d)+" in "+diff(&got, &ref), d.String(), replay)
		}
	}

	if light {
		return b
	}

	// ---- C03.name
	t2 := time.Now()
	checkNames(b, root, &d, bigName, replay)
	t3 := time.Now()
	cls := 2
	if len(b.Bytes) <= 400 {
		cls = 1
		if thorough || depth <= 1 {
			cls = 0
		}
	}
	atomic.AddInt64(&st.nsBuild[cls], int64(t1.Sub(t0)))
	atomic.AddInt64(&st.nsRt[cls], int64(t2.Sub(t1)))
	atomic.AddInt64(&st.nsName[cls], int64(t3.Sub(t2)))
	defer func() { atomic.AddInt64(&st.nsSeg[cls], int64(time.Since(t3))) }()

	// ---- C03.seg
	if okRef {
		n := len(b.Bytes)
		plan := segPlan{}
		switch {
		case n <= 400 && (thorough || depth <= 1):
			plan.full = true
			plan.cuts3 = n <= 80 || (thorough && depth <= 1 && n <= 112)
		case n <= 400:
			plan.full = false // quick tier, 2 deviations: every 1-cut, header-near pairs
			plan.headerOnly = false
			plan.pairs = true
		default:
			plan.headerOnly = true
			plan.pairs = thorough || depth <= 1
		}
		runSeg(b, root, &d, plan, &ref, depth, thorough, replay)
		st.mu.Lock()
		st.distinct[hk] = true
		if n > st.maxLen {
			st.maxLen = n
		}
		st.mu.Unlock()
		if _, bad := violCase.Load(idx); !bad && (idx%397 == 0 || (depth == 1 && idx%61 == 0)) {
			samples.Offer(fmt.Sprintf("case %d: %s => %d bytes; walker accepts, contiguous decode equals input, standalone name codec agrees, segmentation sweep run", idx, label, n))
		}
	}
	return b
}

// runSweep evaluates one case of the outer-length boundary sweep: the packet is built (and
// signed: ECDSA signature lengths vary from run to run) repeatedly until three different
// signature lengths were seen or sweepTries builds were made; the first build gets all clauses,
// the repeats C03.wf and C03.rt.
const sweepTries = 24

func runSweep(i int64, sc pktgen.SweepCase, thorough bool) {
	idx := int64(1)<<40 + i
	seen := map[int]bool{}
	crossed := false
	atomic.AddInt64(&st.sweepCases, 1)
	for try := 0; try < sweepTries && len(seen) < 3; try++ {
		b := evalDesc(idx, sc.Label, sc.Desc, 2, thorough, try > 0)
		atomic.AddInt64(&st.sweepBuilds, 1)
		if b.Err != nil || b.Panic != "" {
			return
		}
		_, est, shrink, crosses := b.OuterLengths()
		seen[shrink] = true
		if crosses {
			crossed = true
			if est < 65536 {
				atomic.AddInt64(&st.sweepCross253, 1)
			} else {
				atomic.AddInt64(&st.sweepCross65536, 1)
			}
		}
	}
	if crossed {
		atomic.AddInt64(&st.sweepCasesCrossed, 1)
	}
}

// runEcdsaRepeat: ECDSA signatures are randomised and their DER length varies from call to call, so
// one build says little about "any packet this signer signs". Every ECDSA key of the catalog
// (P-224, P-256 x2, P-384, P-521) signs every base shape n times; the API must build every one of
// them (a signature longer than the signer's own estimate is a violation, see evalDesc), the
// packet must be well-formed, decode to its input and its signature must verify. This pass is a
// repetition driven by crypto/rand (the signers hard-wire rand.Reader): it is not an enumeration.
func runEcdsaRepeat(i int64, label string, d pktgen.Desc, n int, thorough bool) {
	idx := int64(1)<<41 + i
	lens := map[int]bool{}
	for try := 0; try < n; try++ {
		b := evalDesc(idx, label, d, 2, thorough, true)
		atomic.AddInt64(&st.ecdsaRepeatBuilds, 1)
		if b.Err != nil || b.Panic != "" {
			continue
		}
		lens[len(b.Rec.SigVal)] = true
		ok := false
		func() {
			defer func() { recover() }()
			if d.Interest {
				if p, cov, err := (spec.Spec{}).ReadInterest(enc.NewBufferReader(b.Bytes)); err == nil {
					ok = b.SignerSp.Validate(cov, p.Signature())
				}
			} else if p, cov, err := (spec.Spec{}).ReadData(enc.NewBufferReader(b.Bytes)); err == nil {
				ok = b.SignerSp.Validate(cov, p.Signature())
			}
		}()
		if !ok {
			addV(&d, "C03.rt", "a packet signed by a shipped ECDSA signer decodes but its signature value does not verify ("+b.SignerSp.Name+")", d.String(),
				map[string]any{"case": label, "desc": d.String(), "case_index": idx, "bytes": hexCap(b.Bytes)})
		}
	}
	st.mu.Lock()
	for l := range lens {
		st.ecdsaSigLens[fmt.Sprintf("%s: %d bytes", pktgen.Signers()[d.Signer].Name, l)] = true
	}
	st.mu.Unlock()
}

func runSeg(b *pktgen.Built, root *pktgen.Node, d *pktgen.Desc, plan segPlan, ref *sink, depth int, thorough bool, replay map[string]any) {
	B := b.Bytes
	n := len(B)
	orig := append([]byte(nil), B...) // private copy: what every wire handed to the decoder must still hold afterwards
	var got sink
	var nseg, nEmpty, nTwice int64
	var w0 enc.Wire
	report := func(key string, cuts []int, lens []int) {
		rp := map[string]any{}
		for k, v := range replay {
			rp[k] = v
		}
		if cuts != nil {
			rp["cuts"] = append([]int{}, cuts...)
		}
		rp["segment_lengths"] = lens
		addV(d, "C03.seg", key, fmt.Sprintf("%s (%d bytes) cut at %v (segment lengths %v): %s", d.String(), n, cuts, lens, key), rp)
	}
	lensOf := func(w enc.Wire) []int {
		l := make([]int, len(w))
		for i := range w {
			l[i] = len(w[i])
		}
		return l
	}
	// intact: the Wire value the decoder was given still has the same segments (same memory, same
	// lengths) and they still hold the packet's bytes. "" or what changed.
	intact := func(w enc.Wire, full bool) string {
		for i := range w {
			if len(w[i]) != len(w0[i]) || (len(w[i]) > 0 && &w[i][0] != &w0[i][0]) {
				return "the segment list of the caller's Wire is rearranged"
			}
		}
		if full {
			p := 0
			for i := range w {
				if p+len(w[i]) > len(orig) || !bytes.Equal(w[i], orig[p:p+len(w[i])]) {
					return "the bytes of the caller's Wire are overwritten"
				}
				p += len(w[i])
			}
			if p != len(orig) {
				return "the bytes of the caller's Wire are overwritten"
			}
		}
		return ""
	}
	// decodeW hands w to the decoder (segmented decode must equal the contiguous one), then checks
	// that decoding left w alone; twice: the same Wire value is decoded a second time.
	decodeW := func(w enc.Wire, cuts []int, twice bool) {
		w0 = append(w0[:0], w...)
		lens := lensOf
		nseg++
		ok, msg := decode(d.Interest, enc.NewWireReader(w), &got, false)
		good := ok && bytes.Equal(got.buf, ref.buf)
		if !good {
			key := ""
			if !ok {
				key = kind(d) + " segmented decode fails: " + msg
			} else {
				var a, r2 sink
				decode(d.Interest, enc.NewWireReader(append(enc.Wire(nil), w0...)), &a, true)
				decode(d.Interest, enc.NewBufferReader(orig), &r2, true)
				key = kind(d) + " segmented decode differs from contiguous decode in " + diff(&a, &r2)
			}
			report(key, cuts, lens(w0))
		}
		if why := intact(w, n <= 1024 || twice || nseg%256 == 0); why != "" {
			report("decoding a segmented wire modifies the wire it was given ("+why+"): the same wire no longer holds the packet", cuts, lens(w0))
			return
		}
		if twice && good {
			nseg++
			nTwice++
			ok, msg = decode(d.Interest, enc.NewWireReader(w), &got, false)
			switch {
			case !ok:
				report(kind(d)+" second decode of the same segmented wire fails: "+msg, cuts, lens(w0))
			case !bytes.Equal(got.buf, ref.buf):
				report(kind(d)+" second decode of the same segmented wire differs from the first", cuts, lens(w0))
			case intact(w, true) != "":
				report("decoding a segmented wire modifies the wire it was given ("+intact(w, true)+"): the same wire no longer holds the packet", cuts, lens(w0))
			}
		}
	}
	// cuts may repeat an offset and may be 0 or n: those segmentations contain EMPTY segments
	try := func(twice bool, cuts ...int) {
		w := make(enc.Wire, 0, len(cuts)+1)
		p := 0
		for _, c := range cuts {
			w = append(w, B[p:c])
			p = c
		}
		w = append(w, B[p:])
		decodeW(w, cuts, twice)
	}
	// the encoder's own wire, exactly as the API returned it (payload buffers supplied by the caller
	// as empty slices are empty segments of it), decoded twice; and the same without the empty ones
	{
		var cuts []int
		p, empties := 0, false
		for _, s := range b.Wire {
			p += len(s)
			empties = empties || len(s) == 0
			if len(s) > 0 && p < n && (len(cuts) == 0 || cuts[len(cuts)-1] != p) {
				cuts = append(cuts, p)
			}
		}
		if len(b.Wire) > 1 {
			var all []int
			q := 0
			for _, s := range b.Wire[:len(b.Wire)-1] {
				q += len(s)
				all = append(all, q)
			}
			decodeW(b.Wire, all, true)
			atomic.AddInt64(&st.naturalVerbatim, 1)
			if empties {
				atomic.AddInt64(&st.naturalWithEmpty, 1)
			}
		}
		if len(cuts) > 0 {
			try(false, cuts...)
			atomic.AddInt64(&st.natural, 1)
		}
	}
	var pos []int
	if plan.headerOnly {
		if root != nil {
			w := 2
			if !plan.pairs {
				w = 1 // quick tier, 2-deviation large packet
			}
			pos = root.HeaderCuts(n, w)
		}
		atomic.AddInt64(&st.headerSeg, 1)
	} else {
		pos = make([]int, 0, n-1)
		for i := 1; i < n; i++ {
			pos = append(pos, i)
		}
		if plan.full {
			atomic.AddInt64(&st.fullSeg, 1)
		}
	}
	for _, c := range pos {
		try(false, c)
	}
	atomic.AddInt64(&st.cuts1, int64(len(pos)))
	// segmentations with EMPTY segments (a repeated cut offset, a cut at 0 or at the end): an empty
	// segment in the middle, two in a row (and, <=1-deviation packets, at the start / at the end of
	// a 2-segment wire) at every 1-cut position (quick tier, 2-deviation packets: at every element
	// start / value start / end offset), around every pair of element offsets, and before / after
	// the whole packet; these wires are decoded twice.
	{
		before := nseg
		for _, cs := range [][]int{{0}, {n}, {0, 0}, {n, n}, {0, n}} {
			try(true, cs...)
		}
		epos := pos
		var hp []int
		if root != nil {
			hp = root.HeaderCuts(n, 0)
		}
		if !(thorough || depth <= 1) || plan.headerOnly {
			epos = hp
		}
		for _, c := range epos {
			try(true, c, c)
			try(false, c, c, c)
			if thorough || depth <= 1 {
				try(true, 0, c)
				try(true, c, n)
			}
		}
		if (thorough || depth <= 1) && !plan.headerOnly && len(hp) <= 96 {
			for i := 0; i < len(hp); i++ {
				for j := i + 1; j < len(hp); j++ {
					try(true, hp[i], hp[i], hp[j])
					try(true, hp[i], hp[j], hp[j])
					try(true, hp[i], hp[i], hp[j], hp[j])
				}
			}
		}
		nEmpty = (nseg - before) - nTwice
	}
	pairPos := pos
	if !plan.full && !plan.headerOnly && root != nil {
		pairPos = root.HeaderCuts(n, 0)
	}
	if plan.full || plan.pairs {
		for i := 0; i < len(pairPos); i++ {
			for j := i + 1; j < len(pairPos); j++ {
				try(false, pairPos[i], pairPos[j])
			}
		}
		atomic.AddInt64(&st.cuts2, int64(len(pairPos)*(len(pairPos)-1)/2))
	}
	if plan.full && plan.cuts3 {
		cnt := int64(0)
		for i := 0; i < len(pos); i++ {
			for j := i + 1; j < len(pos); j++ {
				for k := j + 1; k < len(pos); k++ {
					try(false, pos[i], pos[j], pos[k])
					cnt++
				}
			}
		}
		atomic.AddInt64(&st.cuts3, cnt)
	}
	// the bytes all harness-made segments point into are still the packet
	if !bytes.Equal(B, orig) {
		report("decoding a segmented wire modifies the wire it was given (the bytes of the caller's Wire are overwritten): the same wire no longer holds the packet", nil, nil)
		copy(B, orig)
	}
	atomic.AddInt64(&st.segmentations, nseg)
	atomic.AddInt64(&st.emptySegWires, nEmpty)
	atomic.AddInt64(&st.secondDecodes, nTwice)
	atomic.AddInt64(&st.decodes, nseg)
}

// refComp / refName: the harness's own NDN encoding of a component / name (type, length as
// variable-size numbers, value), used when the packet cannot be walked.
func refNum(v uint64) []byte {
	switch {
	case v < 253:
		return []byte{byte(v)}
	case v <= 0xffff:
		return []byte{0xfd, byte(v >> 8), byte(v)}
	case v <= 0xffffffff:
		return []byte{0xfe, byte(v >> 24), byte(v >> 16), byte(v >> 8), byte(v)}
	}
	b := []byte{0xff, 0, 0, 0, 0, 0, 0, 0, 0}
	binary.BigEndian.PutUint64(b[1:], v)
	return b
}

func checkNames(b *pktgen.Built, root *pktgen.Node, d *pktgen.Desc, bigName bool, replay map[string]any) {
	type item struct {
		what string
		name enc.Name
		node *pktgen.Node
	}
	var items []item
	pn := b.Name
	if d.Interest {
		pn = b.FinalNm // the name the API says it encoded (digest appended / stale digest dropped)
	}
	var nn *pktgen.Node
	if root != nil {
		nn = root.Kid(7)
	}
	items = append(items, item{"packet name", pn, nn})
	if root != nil {
		if hn := root.Kid(0x1e); hn != nil && len(hn.Kids) == len(b.Hint) {
			for i := range b.Hint {
				items = append(items, item{"forwarding hint name", b.Hint[i], hn.Kids[i]})
			}
		}
	} else {
		for i := range b.Hint {
			items = append(items, item{"forwarding hint name", b.Hint[i], nil})
		}
	}
	add := func(key, detail string) {
		if bigName && !d.BigComp() {
			detail = key + " :: " + detail
			key = "name value of 253+ bytes: Name.Bytes differs from the packet encoder or is not decodable by NameFromBytes"
		}
		addV(d, "C03.name", key, d.String()+": "+detail, replay)
	}
	safe := func(what string, f func()) {
		defer func() {
			if r := recover(); r != nil {
				add(what+" panics: "+pktgen.PanicSite(r), "panic")
			}
		}()
		f()
	}
	for _, it := range items {
		it := it
		atomic.AddInt64(&st.nameChecks, 1)
		safe("standalone name codec", func() {
			nb := it.name.Bytes()
			if it.node != nil && !bytes.Equal(nb, b.Bytes[it.node.Start:it.node.End]) {
				add("Name.Bytes differs from the bytes the packet encoder wrote for the same name",
					fmt.Sprintf("%s: Name.Bytes()=%s packet has %s", it.what, hexCap(nb), hexCap(b.Bytes[it.node.Start:it.node.End])))
			}
			back, err := enc.NameFromBytes(nb)
			if err != nil {
				add("NameFromBytes(Name.Bytes()) fails", fmt.Sprintf("%s: %v", it.what, err))
			} else if !sameName(back, it.name) {
				add("NameFromBytes(Name.Bytes()) returns a different name", it.what)
			}
			for ci, c := range it.name {
				cb := c.Bytes()
				if it.node != nil && ci < len(it.node.Kids) && len(it.node.Kids) == len(it.name) {
					k := it.node.Kids[ci]
					if !bytes.Equal(cb, b.Bytes[k.Start:k.End]) {
						add("Component.Bytes differs from the bytes the packet encoder wrote for the same component", it.what)
					}
				}
				if it.node == nil {
					// packet not walkable: compare with the harness's own reference encoding
					want := append(append(refNum(uint64(c.Typ)), refNum(uint64(len(c.Val)))...), c.Val...)
					if !bytes.Equal(cb, want) {
						add("Component.Bytes is not the NDN encoding of the component", fmt.Sprintf("%s: type %d, %d value bytes, header %s", it.what, c.Typ, len(c.Val), hex.EncodeToString(cb[:min(len(cb), 8)])))
					}
				}
				rc, err := enc.ComponentFromBytes(cb)
				if err != nil {
					add("ComponentFromBytes(Component.Bytes()) fails", fmt.Sprintf("%s: type %d, %d value bytes: %v", it.what, c.Typ, len(c.Val), err))
				} else if rc.Typ != c.Typ || !bytes.Equal(rc.Val, c.Val) {
					add("ComponentFromBytes(Component.Bytes()) returns a different component", fmt.Sprintf("%s: type %d, %d value bytes", it.what, c.Typ, len(c.Val)))
				}
			}
		})
	}
}

// replayMain re-executes the case named in a replay file (all clauses, thorough segmentation
// plan) without the enumeration and prints what it finds. Exit 1 if the recorded clause fails again.
func replayMain(sp *pktgen.Space, file string) {
	raw, err := os.ReadFile(file)
	if err != nil {
		report.Fatal("cannot read replay %s: %v", file, err)
	}
	var r struct {
		Clause, Key string
		Replay      struct {
			Case string `json:"case"`
		} `json:"replay"`
	}
	if json.Unmarshal(raw, &r) != nil || r.Replay.Case == "" {
		report.Fatal("replay %s: no case label", file)
	}
	for i, c := range sp.Cases {
		if sp.Label(c) != r.Replay.Case {
			continue
		}
		evalCase(sp, int64(i), c, true)
		again := false
		for _, p := range pending {
			fmt.Printf("REPLAY clause=%s key=%q :: %s\n", p.v.Clause, p.v.Key, p.v.Detail)
			if p.v.Clause == r.Clause && p.v.Key == r.Key {
				again = true
			}
		}
		if again {
			fmt.Printf("REPLAY-RESULT reproduced clause=%s key=%q\n", r.Clause, r.Key)
			os.Exit(1)
		}
		fmt.Printf("REPLAY-RESULT not reproduced (clause=%s key=%q)\n", r.Clause, r.Key)
		os.Exit(0)
	}
	for i, sc := range pktgen.Sweep(pktgen.Bases()) {
		if sc.Label != r.Replay.Case {
			continue
		}
		runSweep(int64(i), sc, true)
		again := false
		for _, p := range pending {
			fmt.Printf("REPLAY clause=%s key=%q :: %s\n", p.v.Clause, p.v.Key, p.v.Detail)
			again = again || (p.v.Clause == r.Clause && p.v.Key == r.Key)
		}
		if again {
			fmt.Printf("REPLAY-RESULT reproduced clause=%s key=%q\n", r.Clause, r.Key)
			os.Exit(1)
		}
		fmt.Printf("REPLAY-RESULT not reproduced in %d signings (clause=%s key=%q)\n", sweepTries, r.Clause, r.Key)
		os.Exit(0)
	}
	if strings.HasPrefix(r.Replay.Case, heldPrefix) {
		replayHeld(r.Replay.Case, r.Clause, r.Key)
	}
	report.Fatal("replay %s: case %q is not in the enumerated space", file, r.Replay.Case)
}

// tailBuf keeps the last 64 KiB written to it.
type tailBuf struct{ b []byte }

func (t *tailBuf) Write(p []byte) (int, error) {
	t.b = append(t.b, p...)
	if len(t.b) > 1<<16 {
		t.b = t.b[len(t.b)-1<<16:]
	}
	return len(p), nil
}
func (t *tailBuf) String() string { return string(t.b) }

func lastLines(s string, n int) string {
	l := strings.Split(strings.TrimRight(s, "\n"), "\n")
	if len(l) > n {
		l = l[len(l)-n:]
	}
	return strings.Join(l, " / ")
}

// crashSite returns "<fatal line> @ <first repository function in the trace>" if the stderr of a
// dead worker shows a Go runtime crash with a repository frame, else "".
func crashSite(stderr string) string {
	first := ""
	for _, l := range strings.Split(stderr, "\n") {
		if first == "" && (strings.HasPrefix(l, "fatal error:") || strings.HasPrefix(l, "panic:") || strings.HasPrefix(l, "runtime: ")) {
			first = pktgen.NormPanic(l)
		}
		if first != "" && strings.HasPrefix(l, "github.com/named-data/ndnd/") {
			f := strings.TrimPrefix(l, "github.com/named-data/ndnd/")
			if k := strings.LastIndex(f, "("); k > 0 {
				f = f[:k]
			}
			return first + " @ " + f
		}
	}
	return ""
}

const (
	deathMemPressure = "out of memory while allocating a small block: memory pressure of the check itself"
	deathCrash       = "runtime crash"
	deathOther       = "no runtime crash in stderr"
)

var oomLine = regexp.MustCompile(`out of memory: cannot allocate (\d+)-byte block \((\d+) in use\)`)

// classifyDeath tells why a worker process died, from its stderr. "cannot allocate N-byte block
// (M in use)": a small N means the address space was used up by the check's own heap (garbage
// awaiting collection); only a single huge allocation (N >= 256 MiB: sized by packet content, the
// largest legitimate allocation for the generated packets is about 1 MiB) is a crash to be
// attributed to the code that asked for it.
func classifyDeath(stderr string) string {
	if m := oomLine.FindStringSubmatch(stderr); m != nil {
		n, _ := strconv.ParseInt(m[1], 10, 64)
		if n >= 256<<20 {
			return deathCrash
		}
		return deathMemPressure
	}
	if strings.Contains(stderr, "fatal error: out of memory") || strings.Contains(stderr, "cannot allocate memory") {
		return deathMemPressure
	}
	if crashSite(stderr) != "" {
		return deathCrash
	}
	return deathOther
}

func keysOf(m map[string]bool) []string {
	var o []string
	for k := range m {
		o = append(o, k)
	}
	sort.Strings(o)
	return o
}

func secs(a [3]int64) (o [3]float64) {
	for i := range a {
		o[i] = float64(a[i]/1e7) / 100
	}
	return
}

func sameName(a, b enc.Name) bool {
	if len(a) != len(b) {
		return false
	}
	for i := range a {
		if a[i].Typ != b[i].Typ || !bytes.Equal(a[i].Val, b[i].Val) {
			return false
		}
	}
	return true
}

// ---------------------------------------------------------------------------------------------

func main() {
	// Safety net: run the whole check under an address-space limit, so that a decoder that
	// sizes an allocation by a mis-framed length cannot take the machine down.
	if os.Getenv("C03_CHILD") == "" {
		var tail, cls string
		workers := enum.Workers()
		lowMem := 0 // number of earlier attempts that died of the check's own memory pressure
		for attempt := 1; attempt <= 3; attempt++ {
			cmd := exec.Command("bash", "-c", `ulimit -v 16000000; exec "$0" "$@"`, os.Args[0])
			cmd.Args = append(cmd.Args, os.Args[1:]...)
			cmd.Env = append(os.Environ(), "C03_CHILD=1", fmt.Sprintf("C03_LOWMEM=%d", lowMem), fmt.Sprintf("VERIF_WORKERS=%d", workers))
			var errb tailBuf
			cmd.Stdout, cmd.Stderr = os.Stdout, io.MultiWriter(os.Stderr, &errb)
			err := cmd.Run()
			if err == nil {
				os.Exit(0)
			}
			if ee, ok := err.(*exec.ExitError); ok && ee.ExitCode() == 1 {
				os.Exit(1)
			}
			tail = errb.String()
			cls = classifyDeath(tail)
			fmt.Printf("NOTE: C03 worker process ended abnormally (attempt %d, %s): %v\n", attempt, cls, err)
			if cls == deathMemPressure {
				// the check's own heap hit the address-space limit: same cases again with half the
				// goroutines and a tighter collector; never a verdict about the repository
				lowMem++
				if workers = workers / 2; workers < 2 {
					workers = 2
				}
			} else if attempt >= 2 {
				break
			}
		}
		if cls == deathMemPressure {
			fmt.Printf("CHECK-ERROR: C03 worker process ran out of memory three times while allocating ordinary small blocks (memory pressure of the check itself, inconclusive): %s\n", lastLines(tail, 3))
			os.Exit(2)
		}
		// The worker died twice. If it died inside repository code while building/decoding the
		// generated packets (fatal runtime error, unrecovered panic in another goroutine, stack
		// overflow, a single allocation of hundreds of MiB sized by the input), that is a finding
		// about the repository, not a broken check.
		if site := crashSite(tail); site != "" && cls == deathCrash {
			rep := report.New("C03", "exploration")
			rep.Add(report.Violation{Clause: "C03.rt", Key: "the process dies while building or decoding generated packets: " + site,
				Detail: "the C03 worker process was killed by the Go runtime twice in a row; last lines of its stderr: " + lastLines(tail, 12),
				Replay: map[string]any{"stderr_tail": lastLines(tail, 40)}})
			rep.Finish(report.Coverage{"evaluations": 0, "distinct_nontrivial": 0, "rule": "worker died before reporting", "samples": []string{}, "exhaustive": false}, nil)
		}
		fmt.Printf("CHECK-ERROR: C03 worker process failed (%s) and its stderr shows no repository frame: %s\n", cls, lastLines(tail, 5))
		os.Exit(2)
	}
	// Memory: decoding produces mostly short-lived garbage and the live heap is tens of MB, but a
	// decode of a packet with a 64 KiB name component allocates a 1 MiB component slice, and
	// whatever is allocated while a collection is marking counts as live for the next heap goal
	// (observed: 1 GB "live" after one stretched mark phase on a loaded machine, hence a 7 GB goal
	// with GOGC=600). A soft memory limit far below the `ulimit -v` of the wrapper makes the
	// collector work harder instead of letting the process die.
	gcPct, memLimit := 300, int64(4)<<30
	lm, _ := strconv.Atoi(os.Getenv("C03_LOWMEM"))
	if lm > 0 {
		gcPct, memLimit = 100, int64(2)<<30
	}
	if n, err := strconv.Atoi(os.Getenv("C03_SELFTEST_OOM")); err == nil && lm < n {
		// exercises the parent's death classification and retry: die like a process under memory pressure
		fmt.Fprintln(os.Stderr, "runtime: out of memory: cannot allocate 4194304-byte block (13890715648 in use)\nfatal error: out of memory\n\ngoroutine 53 [running]:\ngithub.com/named-data/ndnd/std/ndn/spec_2022.(*InterestParsingContext).Parse(0x0)")
		os.Exit(2)
	}
	debug.SetGCPercent(gcPct)
	debug.SetMemoryLimit(memLimit)
	rep = report.New("C03", "exploration")
	samples.N = 10
	thorough := rep.Thorough()
	budget := 80 * time.Second
	if thorough {
		budget = 25 * time.Minute
	}
	if v, err := strconv.Atoi(os.Getenv("VERIF_BUDGET_S")); err == nil && v > 0 {
		budget = time.Duration(v) * time.Second // development aid: shorter/longer cap
	}
	deadline := time.Now().Add(budget)

	sp := pktgen.Enumerate(pktgen.Bases(), 2)
	cases := sp.Cases
	for i, a := range os.Args {
		if a == "--replay" && i+1 < len(os.Args) {
			replayMain(sp, os.Args[i+1])
		}
	}
	sort.SliceStable(cases, func(i, j int) bool { return len(cases[i].Devs) < len(cases[j].Devs) })
	// rotate inside the 2-deviation block by seed so that a capped run does not always stop in
	// the same corner
	first2 := sort.Search(len(cases), func(i int) bool { return len(cases[i].Devs) >= 2 })
	if n2 := len(cases) - first2; n2 > 0 && rep.Seed != 0 {
		r := int(uint64(rep.Seed) % uint64(n2))
		blk := append(append([]pktgen.Case{}, cases[first2+r:]...), cases[first2:first2+r]...)
		copy(cases[first2:], blk)
	}

	// the outer-length boundary sweep runs first: it is small and must not fall to the time cap
	tPass := time.Now()
	passWall := map[string]float64{}
	lap := func(name string) {
		passWall[name] = float64(time.Since(tPass).Milliseconds()) / 1000
		tPass = time.Now()
	}
	sweep := pktgen.Sweep(pktgen.Bases())
	_, sweepDone := enum.Range(int64(len(sweep)), deadline, func(i int64) { runSweep(i, sweep[i], thorough) })

	lap("outer_length_sweep")
	// signature-size pass (sigsize.go): small, must not fall to the time cap
	szDeadline := deadline
	if m := time.Now().Add(40 * time.Second); szDeadline.Before(m) {
		szDeadline = m
	}
	szN, szDone, szComplete := runSigSizePass(thorough, szDeadline)
	lap("signature_sizes")
	// ECDSA repetition pass (small, runs before the big enumeration)
	type repCase struct {
		label string
		d     pktgen.Desc
	}
	var reps []repCase
	nrep := 64
	if thorough {
		nrep = 512
	}
	for si, sg := range pktgen.Signers() {
		if sg.Family != "ecdsa" || sg.FailsToSign {
			continue
		}
		for _, b := range pktgen.Bases() {
			d := b.Desc
			d.Signer = si
			if d.PaySize < 0 {
				d.PaySize = 3
			}
			reps = append(reps, repCase{fmt.Sprintf("%s + signer=%s x%d signings", b.Name, sg.Name, nrep), d})
		}
	}
	_, repDone := enum.Range(int64(len(reps)), deadline, func(i int64) { runEcdsaRepeat(i, reps[i].label, reps[i].d, nrep, thorough) })

	lap("ecdsa_repetition")
	// held packets (small, runs before the big enumeration): see held.go
	heldDeadline := deadline
	if m := time.Now().Add(45 * time.Second); heldDeadline.Before(m) {
		heldDeadline = m // never lost to a cap spent by the passes before it
	}
	heldN, heldDone, heldComplete := runHeld(thorough, heldDeadline)
	lap("held_packets")

	done, complete := enum.Range(int64(len(cases)), deadline, func(i int64) { evalCase(sp, i, cases[i], thorough) })
	complete = complete && repDone && heldComplete && szComplete
	lap("enumeration")
	complete = complete && sweepDone
	flushPending()

	rej := map[string]int{}
	for k, v := range st.rejected {
		rej[k] = v
	}
	cov := report.Coverage{
		"evaluations":                            st.decodes,
		"distinct_nontrivial":                    len(st.distinct),
		"rule":                                   "distinct encoded packets (by SHA-256 of the bytes) that were built by MakeInterest/MakeData, decoded contiguously and went through the segmentation sweep",
		"samples":                                samples.List(),
		"exhaustive":                             complete,
		"cases_enumerated":                       len(cases),
		"cases_completed":                        done,
		"cases_by_deviations":                    map[string]int64{"0": st.perDepth[0], "1": st.perDepth[1], "2": st.perDepth[2]},
		"combinations_skipped_noop_or_duplicate": sp.Skipped,
		"packets_built":                          st.built,
		"api_refused_to_build":                   rej,
		"segmentations_decoded":                  st.segmentations,
		"one_cuts":                               st.cuts1,
		"two_cuts":                               st.cuts2,
		"three_cuts":                             st.cuts3,
		"encoder_own_segmentations":              st.natural,
		"encoder_own_wire_verbatim_decoded_twice":     st.naturalVerbatim,
		"encoder_own_wires_with_an_empty_segment":     st.naturalWithEmpty,
		"wires_with_empty_segments_decoded":           st.emptySegWires,
		"second_decodes_of_the_same_wire":             st.secondDecodes,
		"packets_with_every_1_and_2_cut":              st.fullSeg,
		"packets_with_header_neighbourhood_cuts_only": st.headerSeg,
		"largest_packet_bytes":                        st.maxLen,
		"standalone_name_checks":                      st.nameChecks,
		"violating_observations":                      nViol,
		"ecdsa_repetition_pass": map[string]any{
			"rule":   "every ECDSA mode of the catalog (P-224, P-256 x2 keys incl. cert/int modes, P-384, P-521) x every base shape signed N times (quick 64, thorough 512); crypto/rand-driven repetition, not enumeration: the API must never refuse (signature longer than the signer's own estimate), the packet must be well-formed, round-trip and verify",
			"builds": st.ecdsaRepeatBuilds, "signature_lengths_observed": keysOf(st.ecdsaSigLens),
		},
		"outer_length_boundary_sweep": map[string]any{
			"cases": st.sweepCases, "builds": st.sweepBuilds,
			"targets_estimated_outer_length":                    pktgen.SweepTargets(),
			"builds_where_the_length_field_shrank_3_to_1_bytes": st.sweepCross253,
			"builds_where_the_length_field_shrank_5_to_3_bytes": st.sweepCross65536,
			"cases_with_at_least_one_such_build":                st.sweepCasesCrossed,
			"rule":                                              "every base x every ECDSA signer mode x payload size such that the estimated outer length is each target; each case signed until 3 different signature lengths were seen or 24 builds",
		},
		"held_packets":         heldCoverage(heldN, heldDone),
		"signature_sizes":      sigSizeCoverage(szN, szDone),
		"wall_seconds_by_pass": passWall,
		"stale_digest_name_without_parameters_rejected_by_decoder_(allowed)": st.mayReject,
		"cpu_seconds_by_phase_and_class": map[string][3]float64{ // class: every-cut packets, quick-tier 2-deviation small packets, >400 B packets
			"build": secs(st.nsBuild), "contiguous": secs(st.nsRt), "name": secs(st.nsName), "segmentation": secs(st.nsSeg)},
		"bounds": map[string]any{
			"deviations":              "<=2 per case, pairwise different dimensions, over 5 bases (3 Interest, 2 Data)",
			"component_types":         []uint64{8, 1, 2, 0x20, 0x32, 0x36, 252, 253, 65535, 65536},
			"component_value_lengths": []int{0, 1, 2, 31, 32, 252, 253, 254, 255, 256, 65535, 65536},
			"payload_sizes":           []int{-1, -2, 0, 1, 3, 252, 253, 65535, 65536},
			"payload_splits":          pktgen.SplitClasses,
			"signers":                 len(pktgen.Signers()),
			"segmentation":            "packets <=400 B: every 1-cut and 2-cut (quick tier: 2-deviation packets get every 1-cut plus all pairs of cuts at TLV start/value/end offsets); every 3-cut for packets <=80 B (thorough: <=112 B for <=1-deviation packets); larger packets: all cuts within 2 bytes of any TLV header/value/end offset and all pairs of them (quick tier, 2-deviation packets: cuts within 1 byte, no pairs); plus the encoder's own wire segmentation (with its empty segments dropped, and verbatim as EncodedX.Wire)",
			"empty_segments":          "wires that contain EMPTY segments: whole packet with an empty segment before / after / two before / two after / one on each side; for every 1-cut offset c (quick tier 2-deviation packets and packets >400 B: every element start / value-start / end offset) the wires [A|e|B], [A|e|e|B] and (<=1-deviation packets; thorough: all) [e|A|B], [A|B|e]; for every pair of element offsets of packets <=400 B (<=1-deviation packets; thorough: all) [A|e|B|C], [A|B|e|C], [A|e|B|e|C]; plus EncodedX.Wire verbatim (caller payload buffers of length 0 are empty segments of it)",
			"input_not_modified":      "after EVERY segmented decode the Wire value handed to enc.NewWireReader is compared with a private copy (segment count, each segment's address and length; the bytes for packets <=1024 B, every 256th decode and at the end for larger ones); every wire with an empty segment (except [A|e|e|B]) and the encoder's own wire are decoded a second time through a new reader over the same Wire value and must give the same result",
		},
	}
	if !complete {
		cov["cap"] = fmt.Sprintf("time budget %s reached after %d of %d cases (cases are ordered by number of deviations; all 0- and 1-deviation cases come first)", budget, done, len(cases))
	}
	rep.Finish(cov, []string{
		"component, payload and key values are fixed byte patterns: only lengths, types, presence and buffer splits vary",
		"empty segments are enumerated around single offsets and pairs of element offsets (see bounds.empty_segments), not in combination with every 2-/3-cut",
		"an error returned by MakeInterest/MakeData means no packet was built; the property says nothing about it (listed under api_refused_to_build)",
		"a trailing ParametersSha256Digest component in the input name of an Interest may be kept or dropped by the API; if the encoded Interest has no parameters and its name still ends in such a component the decoder may reject it",
		"durations are whole milliseconds; Nonce <= 2^32-1 and HopLimit <= 255 (the ranges the wire format can carry)",
		"the independent walker (harness/pktgen/walker.go) is trusted as the definition of well-formed NDN TLV",
	})
}
