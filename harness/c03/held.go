// C03, held packets: "decoding those bytes yields exactly the same name, fields, content and
// signature value" is a statement about the packet the API returned, for as long as the caller
// keeps it - not only at the instant it was built. This pass keeps every built packet alive exactly
// as returned (EncodedData/EncodedInterest.Wire BY REFERENCE, never joined away) while further
// packets are built with the SAME signer object and, optionally, the same name / payload / config
// objects, and after EVERY later call of the packet API re-reads every earlier packet:
//
//   - the held Wire still joins to the bytes it had right after its build (the key names the TLV
//     element in which the first changed byte lies);
//   - decoding the held Wire (through enc.NewWireReader over the API's own segments) still gives
//     exactly what was put in, signature value included;
//   - the ndn.Data / ndn.Interest object decoded from it earlier still renders the same;
//   - EncodedInterest.FinalName still is the decoded name (only when the name slice handed in had
//     no spare capacity the API could legally have appended into).
//
// And every later packet itself must be well-formed and decode to its input, although the signer
// object / input objects were used before (reported only if the same shape is fine when built
// alone: otherwise the main enumeration owns the symptom).
package main

import (
	"bytes"
	"fmt"
	"os"
	"sort"
	"strings"
	"sync"
	"sync/atomic"
	"time"

	enc "github.com/named-data/ndnd/std/encoding"
	"github.com/named-data/ndnd/std/ndn"
	spec "github.com/named-data/ndnd/std/ndn/spec_2022"
	"verif/harness/pktgen"
	"verif/mc/enum"
)

type heldStep struct{ mode, shape int }

type heldSeq struct {
	steps  []heldStep
	inputs int // 0 fresh input objects per build, 1 interned (equal inputs are the same objects), 2 interned + names with spare capacity
	univ   string
}

var inputsName = [3]string{"fresh input objects per build", "equal inputs are the same objects", "equal inputs are the same objects, name slices with spare capacity"}

func modeName(m int) string {
	if m < 0 {
		return "unsigned"
	}
	return pktgen.Signers()[m].Name
}

func (q *heldSeq) String() string {
	var p []string
	for _, s := range q.steps {
		p = append(p, pktgen.HeldShapes(s.mode)[s.shape].Name+"+"+modeName(s.mode))
	}
	return strings.Join(p, " -> ") + " [" + inputsName[q.inputs] + "]"
}

// heldUniverse lists the sequences. Per signer mode m (every shipped mode that can sign, key
// variants included, and "unsigned") and input-object policy: every ordered pair of shapes, every
// ordered triple of core shapes (thorough: of all shapes), all calls with ONE signer object; per
// signer family every ordered pair of different modes x core shapes^2 (one object per mode).
func heldUniverse(thorough bool) []heldSeq {
	var out []heldSeq
	nsh := len(pktgen.HeldShapes(-1))
	tri := pktgen.HeldCore
	if thorough {
		tri = nsh
	}
	var modes []int
	modes = append(modes, -1)
	for i, sp := range pktgen.Signers() {
		if !sp.FailsToSign {
			modes = append(modes, i)
		}
	}
	for _, m := range modes {
		for in := 0; in < 3; in++ {
			for a := 0; a < nsh; a++ {
				for b := 0; b < nsh; b++ {
					out = append(out, heldSeq{[]heldStep{{m, a}, {m, b}}, in, "pairs"})
				}
			}
			for a := 0; a < tri; a++ {
				for b := 0; b < tri; b++ {
					for c := 0; c < tri; c++ {
						out = append(out, heldSeq{[]heldStep{{m, a}, {m, b}, {m, c}}, in, "triples"})
					}
				}
			}
		}
	}
	for _, fam := range []string{"sha256", "hmac", "ecdsa", "rsa", "empty"} {
		var fm []int
		for i, sp := range pktgen.Signers() {
			if sp.Family == fam {
				fm = append(fm, i) // signers whose every signing call fails included: a failed call between builds
			}
		}
		for _, m1 := range fm {
			for _, m2 := range fm {
				if m1 == m2 || (pktgen.Signers()[m1].FailsToSign && pktgen.Signers()[m2].FailsToSign) {
					continue
				}
				for a := 0; a < pktgen.HeldCore; a++ {
					for b := 0; b < pktgen.HeldCore; b++ {
						out = append(out, heldSeq{[]heldStep{{m1, a}, {m2, b}}, 1, "cross-mode pairs"})
						if pktgen.Signers()[m2].FailsToSign {
							// a, failing call, a-again: the failed call sits between two builds
							out = append(out, heldSeq{[]heldStep{{m1, a}, {m2, b}, {m1, b}}, 1, "cross-mode pairs"})
						}
					}
				}
			}
		}
	}
	return out
}

type heldRec struct {
	h       *pktgen.Held
	label   string
	root    *pktgen.Node
	ref     []byte // rendering of the contiguous decode right after the build
	obj     any    // ndn.Data / ndn.Interest decoded from the held wire right after the build
	finalNm []byte // rendering of FinalName right after the build
	damaged bool
}

type heldStats struct {
	seqs, builds, built, refused, failedSign, rechecks, redecodes, objRechecks, finalNmRechecks, inputsIntact, inputsChanged int64
	byUniv                                                                                                                   sync.Map
}

var hst heldStats

// held violations are gathered per (clause, symptom) with the set of configurations that showed it;
// a symptom that shows without any signer is reported once, under "no signer".
type heldViol struct {
	clause, symptom, detail string
	rel                     string
	seq                     int64
	replay                  map[string]any
}

var (
	heldMu    sync.Mutex
	heldViols = map[string]*heldViol{} // clause|symptom|rel -> first (smallest sequence index)
)

func heldAdd(clause, symptom, rel, detail string, seq int64, q *heldSeq, extra map[string]any) {
	rp := map[string]any{"case": heldPrefix + q.String(), "case_index": int64(1)<<42 + seq}
	for k, v := range extra {
		rp[k] = v
	}
	heldMu.Lock()
	defer heldMu.Unlock()
	k := clause + "|" + symptom + "|" + rel
	if p, ok := heldViols[k]; ok && p.seq <= seq {
		return
	}
	heldViols[k] = &heldViol{clause, symptom, detail, rel, seq, rp}
}

func heldFlush() {
	heldMu.Lock()
	defer heldMu.Unlock()
	unsigned := map[string]bool{}
	for _, v := range heldViols {
		if v.rel == "no signer" {
			unsigned[v.clause+"|"+v.symptom] = true
		}
	}
	keys := make([]string, 0, len(heldViols))
	for k := range heldViols {
		keys = append(keys, k)
	}
	sort.Strings(keys)
	for _, k := range keys {
		v := heldViols[k]
		if v.rel != "no signer" && unsigned[v.clause+"|"+v.symptom] {
			continue // shows without any signer as well: one root cause, one key
		}
		d := pktgen.Desc{}
		addV(&d, v.clause, v.symptom+" ("+v.rel+")", v.detail, v.replay)
	}
}

func renderObj(obj any, s *sink) (ok bool) {
	s.reset(true)
	defer func() {
		if recover() != nil {
			ok = false
		}
	}()
	switch x := obj.(type) {
	case ndn.Interest:
		putInterest(s, x)
	case ndn.Data:
		putData(s, x)
	default:
		return false
	}
	return true
}

// freshProblem checks a just-built packet on its own: walker, contiguous decode, equals input.
func freshProblem(h *pktgen.Held, rec *heldRec) (clause, problem string) {
	b := h.Built
	root, werr := pktgen.Walk(b.Bytes)
	if werr != "" {
		return "C03.wf", "is not a well-formed TLV: " + werr
	}
	rec.root = root
	var ref, exp sink
	ok, msg := decode(b.Desc.Interest, enc.NewBufferReader(b.Bytes), &ref, true)
	atomic.AddInt64(&st.decodes, 1)
	if !ok {
		if b.Desc.Interest && b.Desc.PaySize == -1 && strings.Contains(msg, "digest is missing or incorrect") {
			return "", "" // see evalDesc: stale digest component without parameters, every answer accepted
		}
		return "C03.rt", "does not decode: " + msg
	}
	rec.ref = append([]byte(nil), ref.buf...)
	best := ""
	for i, nm := range expectedNames(b, root) {
		exp.reset(true)
		putExpected(&exp, b, nm)
		if bytes.Equal(exp.buf, ref.buf) {
			best = ""
			break
		}
		if i == 0 {
			best = diff(&exp, &ref)
		}
	}
	if best != "" {
		return "C03.rt", "decodes to a different " + best + " than was put in"
	}
	return "", ""
}

var (
	isoMu sync.Mutex
	isoOK = map[[2]int]bool{} // (mode, shape) -> builds and checks out when built alone
)

func isolated(mode, shape int) bool {
	isoMu.Lock()
	defer isoMu.Unlock()
	k := [2]int{mode, shape}
	if v, ok := isoOK[k]; ok {
		return v
	}
	d := pktgen.HeldShapes(mode)[shape].Desc
	h := pktgen.BuildHeld(&d, nil, nil)
	v := false
	if h.Panic == "" && h.Err == nil {
		_, p := freshProblem(h, &heldRec{})
		v = p == ""
	}
	isoOK[k] = v
	return v
}

func runHeldSeq(si int64, q *heldSeq) {
	atomic.AddInt64(&hst.seqs, 1)
	cnt, _ := hst.byUniv.LoadOrStore(q.univ, new(int64))
	atomic.AddInt64(cnt.(*int64), 1)
	signers := pktgen.NewSignerPool()
	var ip *pktgen.InputPool
	switch q.inputs {
	case 1:
		ip = pktgen.NewInputPool(0)
	case 2:
		ip = pktgen.NewInputPool(2)
	}
	var alive []*heldRec
	var got sink
	for j, stp := range q.steps {
		d := pktgen.HeldShapes(stp.mode)[stp.shape].Desc
		var sg ndn.Signer
		if stp.mode >= 0 {
			sg = signers.Get(stp.mode)
		}
		h := pktgen.BuildHeld(&d, sg, ip)
		atomic.AddInt64(&hst.builds, 1)
		lbl := pktgen.HeldShapes(stp.mode)[stp.shape].Name + "+" + modeName(stp.mode)
		how := "built"
		switch {
		case h.Panic != "":
			how = "attempted (the API panicked)"
		case h.Err != nil && h.Rec != nil && h.Rec.Asked:
			how = "attempted (signing failed)"
			atomic.AddInt64(&hst.failedSign, 1)
		case h.Err != nil:
			how = "attempted (the API refused)"
			atomic.AddInt64(&hst.refused, 1)
		}
		inputsNote := ""
		if w := h.InputsIntact(); w != "" {
			atomic.AddInt64(&hst.inputsChanged, 1)
			inputsNote = "; the call changed the caller's " + w
		} else {
			atomic.AddInt64(&hst.inputsIntact, 1)
		}

		// ---- every earlier packet, re-read after this call
		for _, r := range alive {
			if r.damaged {
				continue
			}
			atomic.AddInt64(&hst.rechecks, 1)
			pb := r.h.Built
			rel := "no signer"
			if pb.SignerSp != nil {
				rel = pb.SignerSp.Family + " signer, the later call does not use it"
				if stp.mode >= 0 && stp.mode == pb.Desc.Signer {
					rel = "same " + pb.SignerSp.Family + " signer object"
				} else if stp.mode >= 0 {
					rel = "another " + pb.SignerSp.Family + " signer object"
				}
			}
			ctx := fmt.Sprintf("%s built and kept as returned, then %s %s%s; sequence %s", r.label, lbl, how, inputsNote, q.String())
			extra := map[string]any{"desc": pb.Desc.String(), "bytes": hexCap(pb.Bytes), "later_call": d.String()}
			late := pb.Wire.Join()
			if !bytes.Equal(late, pb.Bytes) {
				r.damaged = true
				off := 0
				for off < len(late) && off < len(pb.Bytes) && late[off] == pb.Bytes[off] {
					off++
				}
				el := "length"
				if len(late) == len(pb.Bytes) {
					el = pktgen.ElementAt(r.root, off)
				}
				extra["bytes_now"] = hexCap(late)
				heldAdd("C03.rt", fmt.Sprintf("the encoded bytes of an earlier %s change when a later packet is built: %s", kind(pb.Desc), el), rel,
					fmt.Sprintf("%s: Encoded%s.Wire of the first packet now joins to different bytes (first difference at offset %d)", ctx, kind(pb.Desc), off), si, q, extra)
				continue
			}
			ok, msg := decode(pb.Desc.Interest, enc.NewWireReader(pb.Wire), &got, true)
			atomic.AddInt64(&hst.redecodes, 1)
			atomic.AddInt64(&st.decodes, 1)
			if !ok || !bytes.Equal(got.buf, r.ref) {
				r.damaged = true
				what := "fails (" + msg + ")"
				if ok {
					ref := sink{}
					ref.reset(true)
					// re-render the reference with marks for the field name
					decode(pb.Desc.Interest, enc.NewBufferReader(pb.Bytes), &ref, true)
					what = "gives a different " + diff(&ref, &got)
				}
				heldAdd("C03.rt", fmt.Sprintf("an earlier %s whose bytes are unchanged decodes differently after a later packet was built: decode %s", kind(pb.Desc), what), rel, ctx, si, q, extra)
				continue
			}
			if r.obj != nil {
				atomic.AddInt64(&hst.objRechecks, 1)
				if !renderObj(r.obj, &got) || !bytes.Equal(got.buf, r.ref) {
					r.damaged = true
					heldAdd("C03.rt", fmt.Sprintf("the %s object decoded from an earlier packet changes when a later packet is built and decoded", kind(pb.Desc)), rel, ctx, si, q, extra)
					continue
				}
			}
			if r.finalNm != nil {
				atomic.AddInt64(&hst.finalNmRechecks, 1)
				got.reset(false)
				got.name(pb.FinalNm)
				if !bytes.Equal(got.buf, r.finalNm) {
					r.damaged = true
					heldAdd("C03.rt", "an earlier EncodedInterest.FinalName changes when a later Interest is built (its name slice had no spare capacity)", rel, ctx, si, q, extra)
				}
			}
		}

		// ---- the packet just built
		if h.Panic != "" {
			if j > 0 && isolated(stp.mode, stp.shape) {
				heldAdd("C03.wf", "packet API panics when called again with an already used signer object / input objects: "+h.Panic, "no signer", lbl+" in "+q.String(), si, q, nil)
			}
			continue
		}
		if h.Err != nil {
			continue
		}
		atomic.AddInt64(&hst.built, 1)
		atomic.AddInt64(&st.built, 1)
		rec := &heldRec{h: h, label: lbl}
		clause, problem := freshProblem(h, rec)
		if problem != "" {
			if j > 0 && isolated(stp.mode, stp.shape) {
				rel := "no signer"
				if h.SignerSp != nil {
					rel = "same " + h.SignerSp.Family + " signer object"
					if q.univ == "cross-mode pairs" {
						rel = "another " + h.SignerSp.Family + " signer object"
					}
				}
				heldAdd(clause, fmt.Sprintf("a %s that is fine when built alone %s when built after other packets", kind(h.Desc), problem), rel,
					lbl+" in "+q.String(), si, q, map[string]any{"desc": d.String(), "bytes": hexCap(h.Bytes)})
			}
			continue
		}
		if rec.ref == nil {
			continue
		}
		// decode the held wire now and keep the decoded object
		func() {
			defer func() { recover() }()
			if d.Interest {
				if i, _, err := (spec.Spec{}).ReadInterest(enc.NewWireReader(h.Wire)); err == nil {
					rec.obj = i
				}
			} else if p, _, err := (spec.Spec{}).ReadData(enc.NewWireReader(h.Wire)); err == nil {
				rec.obj = p
			}
		}()
		atomic.AddInt64(&st.decodes, 1)
		if d.Interest && h.ExactCapName && len(h.FinalNm) > 0 {
			got.reset(false)
			got.name(h.FinalNm)
			rec.finalNm = append([]byte(nil), got.buf...)
		}
		alive = append(alive, rec)
	}
	if si%1499 == 0 {
		samples.Offer(fmt.Sprintf("held sequence %d: %s: every earlier packet re-read (bytes, decode of the held wire, decoded object, FinalName) after every later call", si, q.String()))
	}
}

func runHeld(thorough bool, deadline time.Time) (n int, done int64, complete bool) {
	u := heldUniverse(thorough)
	done, complete = enum.Range(int64(len(u)), deadline, func(i int64) { runHeldSeq(i, &u[i]) })
	heldFlush()
	return len(u), done, complete
}

func heldCoverage(n int, done int64) map[string]any {
	by := map[string]int64{}
	hst.byUniv.Range(func(k, v any) bool { by[k.(string)] = atomic.LoadInt64(v.(*int64)); return true })
	var shapes []string
	for _, b := range pktgen.HeldShapes(-1) {
		shapes = append(shapes, b.Name)
	}
	return map[string]any{
		"rule":                       "per signer mode (every shipped mode that can sign incl. key variants, and unsigned) x input-object policy (fresh / equal inputs are the same objects / + name slices with spare capacity): every ordered pair of shapes and every ordered triple of the core shapes (thorough: all shapes) built with ONE signer object; per signer family every ordered pair of different modes x core shapes^2 (failing-key signers included as the call in between); every packet kept as returned and re-read after every later call",
		"shapes":                     shapes,
		"core_shapes":                pktgen.HeldCore,
		"sequences":                  n,
		"sequences_completed":        done,
		"sequences_by_universe":      by,
		"api_calls":                  hst.builds,
		"packets_built_and_kept":     hst.built,
		"calls_the_api_refused":      hst.refused,
		"calls_whose_signing_failed": hst.failedSign,
		"earlier_packets_re_read_after_a_later_call":           hst.rechecks,
		"held_wires_decoded_again":                             hst.redecodes,
		"held_decoded_objects_rendered_again":                  hst.objRechecks,
		"held_final_names_compared_again":                      hst.finalNmRechecks,
		"calls_that_left_their_input_objects_intact":           hst.inputsIntact,
		"calls_that_changed_an_input_object_(diagnostic_only)": hst.inputsChanged,
	}
}

const heldPrefix = "held sequence: "

// replayHeld re-runs the sequence named by a replay file.
func replayHeld(label, clause, key string) {
	u := heldUniverse(true)
	for i := range u {
		if heldPrefix+u[i].String() != label {
			continue
		}
		runHeldSeq(int64(i), &u[i])
		heldFlush()
		again := false
		for _, p := range pending {
			fmt.Printf("REPLAY clause=%s key=%q :: %s\n", p.v.Clause, p.v.Key, p.v.Detail)
			again = again || (p.v.Clause == clause && p.v.Key == key)
		}
		if again {
			fmt.Printf("REPLAY-RESULT reproduced clause=%s key=%q\n", clause, key)
			os.Exit(1)
		}
		fmt.Printf("REPLAY-RESULT not reproduced (clause=%s key=%q)\n", clause, key)
		os.Exit(0)
	}
}
