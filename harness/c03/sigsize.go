package main

// Signature-size pass: see harness/pktgen/ext_sigsize.go. Every case of the two size universes
// (the shipped RSA signer with keys generated for modulus lengths on both sides of the
// 1-byte/3-byte length-field boundary; a harness-defined signer of each shipped signature type
// whose EstimateSize runs through 0..300 and 65530..65540 with the signature 0..3 bytes shorter)
// is built through the packet API and gets the C03 clauses: the whole set (C03.wf, C03.rt,
// C03.name, C03.seg) when the estimate or the signature length is next to a length-form boundary,
// C03.wf and C03.rt otherwise. (estimate, actual) pairs that no shipped signer family produces
// (signature shorter than an estimate of 253+) are built and their outcome only counted.

import (
	"fmt"
	"sync"
	"sync/atomic"
	"time"

	enc "github.com/named-data/ndnd/std/encoding"
	"verif/harness/pktgen"
	"verif/mc/enum"
	"verif/mc/report"
)

type sigSizeStats struct {
	mu                                sync.Mutex
	cases, must, full, built, refused int64
	observedOnly                      int64
	observed                          map[string]int64
	refusedBy                         map[string]int64
	rsaKeys                           []string
}

var ssz = &sigSizeStats{observed: map[string]int64{}, refusedBy: map[string]int64{}}

func sigSizeUniverse(thorough bool) []pktgen.SizeCase {
	rsa, err := pktgen.SizedRSACases(thorough)
	if err != nil {
		report.Fatal("C03 signature-size pass: %v", err)
	}
	for _, c := range rsa {
		if !c.Desc.Interest && c.Desc.PaySize == -1 {
			ssz.rsaKeys = append(ssz.rsaKeys, c.Desc.Ext.Name)
		}
	}
	return append(rsa, pktgen.SigSizeGrid(len(pktgen.SizeTypes))...)
}

func runSigSize(i int64, sc pktgen.SizeCase, thorough bool) {
	idx := int64(1)<<42 + i
	atomic.AddInt64(&ssz.cases, 1)
	if !sc.Must {
		// no shipped signer behaves like this: record what the API does with it
		atomic.AddInt64(&ssz.observedOnly, 1)
		d := sc.Desc
		b := pktgen.Build(&d)
		out := "built, well-formed, decodes"
		switch {
		case b.Panic != "":
			out = "packet API panics"
		case b.Err != nil:
			out = "refused: " + errClass(b.Err)
		default:
			var s sink
			if _, werr := pktgen.Walk(b.Bytes); werr != "" {
				out = "built, not a well-formed TLV"
			} else if ok, _ := decode(d.Interest, enc.NewBufferReader(b.Bytes), &s, true); !ok {
				out = "built, well-formed, does not decode"
			}
		}
		ssz.mu.Lock()
		ssz.observed[kind(&d)+": "+out]++
		ssz.mu.Unlock()
		return
	}
	atomic.AddInt64(&ssz.must, 1)
	light := !sc.Boundary
	if !light {
		atomic.AddInt64(&ssz.full, 1)
	}
	b := evalDesc(idx, sc.Label, sc.Desc, 2, thorough, light)
	switch {
	case b.Err != nil:
		atomic.AddInt64(&ssz.refused, 1)
		ssz.mu.Lock()
		ssz.refusedBy[kind(&sc.Desc)+": "+errClass(b.Err)]++
		ssz.mu.Unlock()
	case b.Panic == "":
		atomic.AddInt64(&ssz.built, 1)
		if len(b.Rec.SigVal) != sc.Act && b.Rec.Asked {
			addV(&sc.Desc, "C03.rt", "signature-size pass: the signer returned a signature of another length than planned (check broken)", sc.Label, map[string]any{"case": sc.Label, "case_index": idx})
		}
	}
}

func runSigSizePass(thorough bool, deadline time.Time) (n int, done int64, complete bool) {
	u := sigSizeUniverse(thorough)
	done, complete = enum.Range(int64(len(u)), deadline, func(i int64) { runSigSize(i, u[i], thorough) })
	return len(u), done, complete
}

func sigSizeCoverage(n int, done int64) map[string]any {
	return map[string]any{
		"rule": fmt.Sprintf("shipped RSA signer with keys generated for modulus lengths %v bytes x {D0,D1} / interest mode x {I2,I1}; harness-defined signer announcing each shipped signature type (%d types) x EstimateSize 0..%d and 65530..65540 (Data) x signature 0..%d bytes shorter x {D0,D1,I2,I1}",
			pktgen.SizedRSABytes(rep.Thorough()), len(pktgen.SizeTypes), pktgen.SizeGridMax, pktgen.SizeGridShort),
		"cases": n, "cases_completed": done,
		"cases_judged_(a_shipped_signer_family_behaves_like_this)":  ssz.must,
		"cases_with_all_clauses_and_segmentations_(boundary_sizes)": ssz.full,
		"packets_built": ssz.built,
		"api_refused":   ssz.refusedBy,
		"cases_only_observed_(signature_shorter_than_an_estimate_of_253+)": ssz.observedOnly,
		"outcomes_of_the_observed_cases":                                   ssz.observed,
		"generated_rsa_keys":                                               ssz.rsaKeys,
	}
}
