// C20: every expressed Interest resolves exactly once, only with Data that satisfies it; incoming
// Interests go to the handler at the longest attached prefix; replies only before the deadline.
//
// Explicit-state BFS (verif/mc/explore) over event histories executed on a REAL basic.Engine that
// is attached to a harness face (records sent wires, injects received frames through the callback
// the engine registered with SetCallback) and to a HARNESS TIMER with time.AfterFunc semantics split
// into explorer events:
//
//	Schedule(d,f)  records a timer; the returned cancel only has an effect while the timer has not FIRED
//	Adv / AdvNext  move virtual now
//	Fire(t)        (deadline <= now) the runtime timer fires: cancel is now too late, but the callback
//	               has not run yet (= the AfterFunc goroutine is blocked on the engine's pitLock)
//	RunFired(t)    the callback runs
//	FireRun(t)     Fire immediately followed by RunFired (keeps the common case one event deep)
//	AdvCall        (reply configuration) virtual now jumps exactly onto the next deadline of a kept Reply function
//
// Two further dimensions belong to the APPLICATION / ENVIRONMENT side of the engine's interface:
//
//	shared config  ("reuse") the application owns one ndn.InterestConfig struct and re-uses it: every Express
//	               overwrites its fields in place, Recfg events overwrite them while Interests are pending
//	Down / Up      ("fault", "faultd") the face goes down (Engine.Stop) and comes back (Engine.Start): while it
//	               is down Express fails to send and returns an error, nothing arrives
//
//	in=<arrival>   ("loop", "loopd") the face model's choice of DELIVERY POINT: a Data/Nack arrival is handed to
//	               the engine inside face.Send of an Express, before Send (and Express) has returned
//
// This reproduces, sequentially and deterministically, every interleaving of timeout goroutines
// with the receive path that the engine's pitLock allows (the lock makes onData/onNack/timeoutFunc
// atomic with respect to each other, so interleavings at whole-callback granularity are all there
// are). The engine itself starts no goroutine: application callbacks and handlers run synchronously
// on the caller's stack (engine.go has no `go` statement), so nothing else needs to be owned.
//
// Oracle: black box (callback log, wires on the face, handler invocations). The white-box hook
// (hooks/std/engine/basic/verif_c20.go: trie dumps, node→root chains; the private fields of a
// pending-Interest record are read by name through reflection, a field that does not exist shows
// as "<absent>" instead of breaking the build) is used for the canonical
// state and to give violations root-cause-level keys (which kind of event made a pending
// Interest unreachable from the PIT root / a handler vanish from the FIB); a violation is only
// ever raised by an externally visible event (a Data that does not resolve a pending Interest it
// satisfies, a second callback, a handler not invoked, ...).
//
// Keys seen on the tree this was built against and their root causes (patches in fixes/):
//
//	C20.all  "...pruned an emptied ancestor node that still had children (DeleteIf)"   01 NameTrie.DeleteIf ignores children
//	C20.all  "...cut off by a Nack arrival for a different ... name (onNack Delete)"   02 onNack uses Delete()
//	C20.once "callback invoked twice: Nack result, then Timeout result"                02 onNack leaves the resolved entries in the node
//	C20.all  "...earlier Interest whose own node had already been detached (stale...)" 03 Delete/DeleteIf on a detached node prune by key
//	C20.lpm  "...DetachHandler of a different ... prefix dropped that handler..."      04 DetachHandler uses Delete()
package main

import (
	"bytes"
	"crypto/sha256"
	"errors"
	"fmt"
	"os"
	"sort"
	"strings"
	"time"

	enc "github.com/named-data/ndnd/std/encoding"
	basic "github.com/named-data/ndnd/std/engine/basic"
	"github.com/named-data/ndnd/std/engine/dummy"
	"github.com/named-data/ndnd/std/log"
	"github.com/named-data/ndnd/std/ndn"
	spec "github.com/named-data/ndnd/std/ndn/spec_2022"
	sec "github.com/named-data/ndnd/std/security"
	"verif/mc/explore"
	"verif/mc/report"
)

const ms = time.Millisecond

// ---------------------------------------------------------------- harness face

type hFace struct {
	running bool
	onPkt   func(r enc.ParseReader) error
	onErr   func(err error) error
	sent    [][]byte
	// during != nil: the peer's answer is already on its way: it is delivered to the engine INSIDE the
	// next Send, before Send returns (a loopback / in-process face, or a reader goroutine that wins the
	// race against the sender). One-shot.
	during func()
}

func (f *hFace) Open() error {
	if f.onPkt == nil || f.onErr == nil {
		return errors.New("callbacks not set")
	}
	f.running = true
	return nil
}
func (f *hFace) Close() error    { f.running = false; return nil }
func (f *hFace) IsRunning() bool { return f.running }
func (f *hFace) IsLocal() bool   { return true }
func (f *hFace) SetCallback(onPkt func(r enc.ParseReader) error, onErr func(err error) error) {
	f.onPkt, f.onErr = onPkt, onErr
}
func (f *hFace) Send(pkt enc.Wire) error {
	if !f.running {
		return errors.New("face is not running")
	}
	f.sent = append(f.sent, append([]byte{}, pkt.Join()...))
	if d := f.during; d != nil {
		f.during = nil
		d()
	}
	return nil
}

// ---------------------------------------------------------------- harness timer

const (
	tSched = iota
	tCancelled
	tFired
	tDone
)

type tmr struct {
	id       int
	deadline time.Time
	f        func()
	state    int
	owner    int // index of the Interest whose Express scheduled it (-1: none)
}

type hTimer struct {
	now      time.Time
	timers   []*tmr
	curOwner int
	// dm != nil: the "dummy" configuration. The engine is then driven by the repository's own
	// virtual timer (std/engine/dummy.Timer: real Schedule / cancel / MoveForward); `now` only
	// mirrors its clock for the oracle.
	dm     *dummy.Timer
	in     *inst
	nSched int // dummy configuration: number of Schedule calls so far (= id of the shadow's timer for the same call)
	dmRecs []*dmRec
}

// dmRec (dummy configurations, white box, canonical state only): one Schedule call on dummy.Timer.
type dmRec struct {
	owner int       // Interest whose Express made the call
	at    time.Time // expiry instant
	fid   uintptr   // identity of the closure in the slot table (0: unknown)
	idx0  int       // slot it was put in (what the cancel closure remembers)
}

// dmLive: the closure identities in the live slots of dummy.Timer's table -> slot index.
func dmLive(dm *dummy.Timer) (map[uintptr]int, bool) {
	slots, ok := dm.VerifSlots()
	if !ok {
		return nil, false
	}
	m := map[uintptr]int{}
	for i, sl := range slots {
		if sl.Live {
			m[sl.ID] = i
		}
	}
	return m, true
}

func (t *hTimer) Now() time.Time {
	if t.dm != nil {
		return t.dm.Now()
	}
	return t.now
}
func (t *hTimer) Sleep(d time.Duration) {
	panic("harness timer: Sleep is not used by the code under test")
}
func (t *hTimer) Nonce() []byte { return []byte{1, 2, 3, 4, 5, 6, 7, 8} }
func (t *hTimer) Schedule(d time.Duration, f func()) func() error {
	if t.dm != nil {
		in := t.in
		seq := t.nSched
		t.nSched++
		rec := &dmRec{owner: t.curOwner, at: t.dm.Now().Add(d), idx0: -1}
		t.dmRecs = append(t.dmRecs, rec)
		before, okb := dmLive(t.dm)
		defer func() {
			if after, ok := dmLive(t.dm); ok && okb {
				n := 0
				for id, i := range after {
					if _, was := before[id]; !was {
						rec.fid, rec.idx0 = id, i
						n++
					}
				}
				if n != 1 {
					rec.fid, rec.idx0 = 0, -1
				}
			}
		}()
		return t.dm.Schedule(d, func() {
			in.dmRan = append(in.dmRan, seq)
			f()
			in.runDeferred("early") // pitLock is free again; MoveForward has not returned yet
		})
	}
	x := &tmr{id: len(t.timers), deadline: t.now.Add(d), f: f, state: tSched, owner: t.curOwner}
	t.timers = append(t.timers, x)
	called := false
	return func() error {
		// time.Timer.Stop: prevents the callback only if the timer has not fired yet. The return
		// value mirrors basic.Timer (nil on the first call whether or not Stop was in time).
		if called {
			return errors.New("event has already been canceled")
		}
		called = true
		if x.state == tSched {
			x.state = tCancelled
		}
		return nil
	}
}

// ---------------------------------------------------------------- model

type result struct {
	kind string // Data | Nack | Timeout | other
	op   string
}

type intr struct {
	id     int
	name   string // name without the digest component (= PIT node name)
	nm     enc.Name
	cbp    bool
	life   time.Duration
	noLife bool   // expressed without a lifetime (InterestConfig.Lifetime == nil): the protocol default of 4 s applies
	dig    string // none | right | wrong
	digest []byte
	at     time.Time
	res    []result
	entry  any    // identity of the engine's pendInt (white box), nil if unknown
	node   any    // identity of the PIT node it was inserted in
	lostBy string // set when the entry stops being reachable from the PIT root while pending
	// retry: "" | "late" | "early". On a timeout or Nack result the application re-expresses the
	// Interest once (same name, new nonce; the re-expressed Interest has retry ""). The engine
	// invokes callbacks with pitLock held, so a callback cannot call Express itself (it would
	// self-deadlock); like the repository's own retry code (object.Client.ExpressR hands the retry
	// to its goroutine, dv uses `go`), the callback only queues the retry and it is performed
	// after the engine call that delivered the result has returned: "late" = after the whole event;
	// "early" (dummy.Timer only) = as soon as the timeout function has returned, i.e. while
	// dummy.Timer.MoveForward is still working through its events — the application goroutine
	// simply won the race against the rest of MoveForward.
	retry string
	gen   int
	// failed: Express returned an error (the face refused the frame: fault configurations). The
	// property speaks of Interests "an application expresses"; whether an Interest whose Express was
	// refused counts is not stated, so for it every clause is read as "may": its callback may be
	// invoked (at most once, with a legal result) or never, a Data it would match may resolve it.
	failed bool
}

func (x *intr) desc() string {
	c := ""
	if x.cbp {
		c = ",CanBePrefix"
	}
	d := ""
	if x.dig != "none" {
		d = "," + x.dig + " digest"
	}
	r := ""
	if x.retry != "" {
		r = ",re-expressed once on timeout/Nack (" + x.retry + ")"
	}
	if x.gen > 0 {
		r += fmt.Sprintf(",re-expression #%d", x.gen)
	}
	if x.failed {
		r += ",Express returned an error (face down)"
	}
	l := fmt.Sprint(x.life)
	if x.noLife {
		l = "no lifetime given = 4s default"
	}
	return fmt.Sprintf("Interest(%s%s%s,%s%s)", x.name, c, d, l, r)
}

type hcall struct {
	id       int
	handler  string
	name     string
	deadline time.Time
	reply    ndn.WireReplyFunc
	frame    string // how the Interest arrived: "" bare, "plain" LpPacket without token, "tok" LpPacket with a PIT token
	token    []byte // the PIT token it carried (nil: none)
	life     string // its InterestLifetime as received ("none": element absent, else ms)
}

const (
	aNo = iota
	aYes
	aMaybe
)

type inst struct {
	eng      *basic.Engine
	face     *hFace
	tm       *hTimer
	ints     []*intr
	attached map[string]int
	fibLost  map[string]string
	calls    []*hcall
	nIn      int
	curOp    string
	curKind  string
	curName  string
	curCalls []*hcall
	viol     []report.Violation
	seen     map[string]bool
	hist     []string
	deferred []*intr // re-expressions queued by callbacks
	ref      *inst   // dummy configuration only: shadow run of the same events on the harness timer
	dmRan    []int   // dummy configuration only: events dummy.Timer ran during the current step, by Schedule sequence number, in order
	// shared-config style (cfgT.shared): the application owns ONE ndn.InterestConfig (and one lifetime
	// variable its Lifetime field points to) and re-uses it for every Interest: it sets the fields for
	// the Interest at hand, calls MakeInterest + Express, and later overwrites them (next Express, or
	// a Recfg event = preparing the next Interest without expressing it yet).
	shared  bool
	appCfg  *ndn.InterestConfig
	appLife time.Duration
	down    bool  // the face is down (Engine.Stop was called): Send fails, nothing arrives
	sending *intr // != nil while an arrival is being delivered inside face.Send of this Interest's Express
}

func (in *inst) bad(clause, key, detail string) {
	if in.seen[clause+"|"+key] {
		return
	}
	in.seen[clause+"|"+key] = true
	in.viol = append(in.viol, report.Violation{Clause: clause, Key: key, Detail: detail})
}

// ---------------------------------------------------------------- packets

var nmCache = map[string]enc.Name{}

func nm(s string) enc.Name {
	if n, ok := nmCache[s]; ok {
		return n
	}
	n, err := enc.NameFromStr(s)
	if err != nil {
		panic(err)
	}
	nmCache[s] = n
	return n
}

type dataPkt struct {
	wire   []byte
	digest []byte
}

var dataCache = map[string]*dataPkt{}

func dataFor(name string) *dataPkt {
	if d, ok := dataCache[name]; ok {
		return d
	}
	ed, err := spec.Spec{}.MakeData(nm(name), &ndn.DataConfig{}, enc.Wire{[]byte("c20:" + name)}, sec.NewSha256Signer())
	if err != nil {
		report.Fatal("MakeData(%s): %v", name, err)
	}
	w := append([]byte{}, ed.Wire.Join()...)
	h := sha256.Sum256(w)
	d := &dataPkt{wire: w, digest: h[:]}
	dataCache[name] = d
	return d
}

func mkInterest(name enc.Name, cbp bool, life time.Duration, nonce ...uint64) *ndn.EncodedInterest {
	l := life
	ic := &ndn.InterestConfig{CanBePrefix: cbp, Lifetime: &l}
	if len(nonce) > 0 {
		ic.Nonce = &nonce[0]
	}
	ei, err := spec.Spec{}.MakeInterest(name, ic, nil, nil)
	if err != nil {
		report.Fatal("MakeInterest(%s): %v", name, err)
	}
	return ei
}

// inInterest: the wire of an incoming Interest. life < 0: no InterestLifetime element at all (the
// protocol default of 4 s applies); life == 0: the element is present with value 0.
func inInterest(name enc.Name, life time.Duration) []byte {
	ic := &ndn.InterestConfig{}
	if life >= 0 {
		l := life
		ic.Lifetime = &l
	}
	ei, err := spec.Spec{}.MakeInterest(name, ic, nil, nil)
	if err != nil {
		report.Fatal("MakeInterest(%s): %v", name, err)
	}
	return append([]byte{}, ei.Wire.Join()...)
}

// defaultLife: NDN packet format, InterestLifetime: "If the InterestLifetime element is omitted, a
// default value of 4 seconds is used."
const defaultLife = 4 * time.Second

func nackWire(name string) []byte {
	iw := mkInterest(nm(name), false, 10*ms).Wire
	pkt := &spec.Packet{LpPacket: &spec.LpPacket{Nack: &spec.NetworkNack{Reason: spec.NackReasonNoRoute}, Fragment: iw}}
	e := spec.PacketEncoder{}
	e.Init(pkt)
	w := e.Encode(pkt)
	if w == nil {
		report.Fatal("cannot encode Nack for %s", name)
	}
	return append([]byte{}, w.Join()...)
}

// lpWrap puts a network-layer packet into an NDNLPv2 frame (LpPacket), optionally with a PIT token.
func lpWrap(inner []byte, token bool) []byte {
	if token {
		return lpWrapTok(inner, []byte{0xc2, 0x00, 0x00, 0x01})
	}
	return lpWrapTok(inner, nil)
}

func lpWrapTok(inner []byte, token []byte) []byte {
	lp := &spec.LpPacket{Fragment: enc.Wire{inner}}
	if token != nil {
		lp.PitToken = token
	}
	pkt := &spec.Packet{LpPacket: lp}
	e := spec.PacketEncoder{}
	e.Init(pkt)
	w := e.Encode(pkt)
	if w == nil {
		report.Fatal("cannot encode LpPacket")
	}
	return append([]byte{}, w.Join()...)
}

func rel(opName, iName string) string {
	switch {
	case opName == iName:
		return "the same name"
	case strings.HasPrefix(iName, opName+"/"):
		return "a shorter (ancestor) name"
	case strings.HasPrefix(opName, iName+"/"):
		return "a longer (descendant) name"
	}
	return "an unrelated name"
}

// ---------------------------------------------------------------- system

type cfgT struct {
	names     []string
	cbps      []bool
	lives     []int
	digs      []string
	maxInt    int
	dataNames []string
	lpData    []string // additional Data-arrival variants: the Data wrapped in an NDNLPv2 frame ("tok": with a PIT token, "plain": Fragment only)
	nackNames []string
	adv10     bool
	advNext   bool
	split     bool
	prefixes  []string
	inNames   []string
	inLives   []int    // InterestLifetime of incoming Interests in ms; 0: element present with value 0; -1: element absent (4 s default)
	inFrames  []string // how incoming Interests are framed: "" bare, "plain" NDNLPv2 LpPacket, "tok" LpPacket with a PIT token (nil = bare only)
	advCall   bool     // AdvCall event: the clock jumps exactly ONTO the next deadline of a kept Reply function
	maxIn     int
	retries   []string // extra Express variants whose callback re-expresses once on timeout/Nack ("late", "early")
	dummy     bool     // drive the engine with the repository's dummy.Timer and shadow it on the harness timer
	audit     bool     // canon audit: no de-duplication (the history is part of the canonical state)
	shared    bool     // application style: one InterestConfig struct re-used (and mutated) for every Express; Recfg events
	faults    bool     // fault events: Down (Engine.Stop: the face refuses to send, deviation) / Up (Engine.Start)
	advBig    int      // > 0: a second, larger clock step Adv(<advBig>) in ms that passes several deadlines at once
	inSend    bool     // face model: every Data/Nack arrival may also be delivered INSIDE face.Send of an Express (re-entrantly, before Express returns)
}

type sys struct {
	c    cfgT
	name string
}

func (s *sys) newInst(dm *dummy.Timer) *inst {
	in := &inst{face: &hFace{}, tm: &hTimer{now: time.Unix(1000, 0), curOwner: -1, dm: dm},
		attached: map[string]int{}, fibLost: map[string]string{}, seen: map[string]bool{}}
	in.tm.in = in
	in.shared = s.c.shared
	if in.shared {
		in.appCfg = &ndn.InterestConfig{}
		in.appCfg.Lifetime = &in.appLife
		if len(s.c.lives) > 0 {
			in.appLife = time.Duration(s.c.lives[0]) * ms
		}
	}
	if dm != nil {
		in.tm.now = dm.Now()
	}
	in.eng = basic.NewEngine(in.face, in.tm, sec.NewSha256Signer(), func(enc.Name, enc.Wire, ndn.Signature) bool { return true })
	if in.eng == nil {
		report.Fatal("NewEngine returned nil")
	}
	if err := in.eng.Start(); err != nil {
		report.Fatal("Engine.Start: %v", err)
	}
	return in
}

func (s *sys) New() any {
	if !s.c.dummy {
		return s.newInst(nil)
	}
	dm := dummy.NewTimer()
	if dm == nil {
		report.Fatal("dummy.NewTimer returned nil")
	}
	in := s.newInst(dm)
	in.ref = s.newInst(nil)
	return in
}

func (s *sys) Ops(i any) []explore.Op {
	in := i.(*inst)
	c := &s.c
	var ops []explore.Op
	add := func(f string, a ...any) { ops = append(ops, explore.Op{Name: fmt.Sprintf(f, a...)}) }
	if len(in.ints) < c.maxInt {
		for _, n := range c.names {
			for _, d := range c.digs {
				for _, cb := range c.cbps {
					for _, l := range c.lives {
						add("Express(%s,cbp=%v,life=%d,dig=%s)", n, cb, l, d)
						for _, r := range c.retries {
							add("Express(%s,cbp=%v,life=%d,dig=%s,retry=%s)", n, cb, l, d, r)
						}
						if c.inSend && !in.down {
							// the face model's choice of delivery point: the same arrivals, inside Send
							for _, dn := range c.dataNames {
								add("Express(%s,cbp=%v,life=%d,dig=%s,in=Data(%s))", n, cb, l, d, dn)
							}
							for _, nn := range c.nackNames {
								add("Express(%s,cbp=%v,life=%d,dig=%s,in=Nack(%s))", n, cb, l, d, nn)
							}
						}
					}
				}
			}
		}
	}
	if c.shared {
		// the application overwrites its config struct while Interests made from it are pending
		pend := false
		for _, x := range in.ints {
			if len(x.res) == 0 {
				pend = true
			}
		}
		if pend {
			for _, cb := range c.cbps {
				for _, l := range c.lives {
					if cb != in.appCfg.CanBePrefix || time.Duration(l)*ms != in.appLife {
						add("Recfg(cbp=%v,life=%d)", cb, l)
					}
				}
			}
		}
	}
	if c.faults {
		if in.down {
			add("Up")
		} else {
			ops = append(ops, explore.Op{Name: "Down", Dev: true})
		}
	}
	if len(in.ints) > 0 && !in.down {
		for _, n := range c.dataNames {
			add("Data(%s)", n)
		}
		for _, v := range c.lpData {
			for _, n := range c.dataNames {
				add("Data(%s,lp=%s)", n, v)
			}
		}
		for _, n := range c.nackNames {
			add("Nack(%s)", n)
		}
	}
	sched, later := false, false
	for _, t := range in.tm.timers {
		if t.state == tSched {
			sched = true
			if t.deadline.After(in.tm.now) {
				later = true
			}
		}
	}
	if c.adv10 && (sched || len(in.calls) > 0 || (c.dummy && len(in.ints) > 0)) {
		add("Adv(10)")
	}
	if c.advBig > 0 && (sched || len(in.calls) > 0 || (c.dummy && len(in.ints) > 0)) {
		add("Adv(%d)", c.advBig)
	}
	if c.advNext && later {
		add("AdvNext")
	}
	if c.advCall {
		for _, h := range in.calls {
			if h.deadline.After(in.tm.now) {
				add("AdvCall")
				break
			}
		}
	}
	for _, t := range in.tm.timers {
		if t.state == tSched && !t.deadline.After(in.tm.now) {
			add("FireRun(t%d)", t.id)
			if c.split {
				add("Fire(t%d)", t.id)
			}
		}
		if t.state == tFired {
			add("RunFired(t%d)", t.id)
		}
	}
	for _, p := range c.prefixes {
		if in.attached[p] != aYes {
			add("Attach(%s)", p)
		}
	}
	for _, p := range c.prefixes {
		if in.attached[p] == aYes {
			add("Detach(%s)", p)
		}
	}
	if in.nIn < c.maxIn && !in.down {
		for _, n := range c.inNames {
			for _, l := range c.inLives {
				ls := fmt.Sprint(l)
				if l < 0 {
					ls = "none"
				}
				add("Interest(%s,life=%s)", n, ls)
				for _, fr := range c.inFrames {
					if fr != "" {
						add("Interest(%s,life=%s,lp=%s)", n, ls, fr)
					}
				}
			}
		}
	}
	for _, h := range in.calls {
		add("Reply(h%d)", h.id)
	}
	if _, worker := explore.IsWorker(); !worker {
		// replay mode only: the quiescence closure as an explicit last event, so that violations found
		// by CheckState can be re-executed with `./check C20 --replay <file>`
		add("Quiesce")
	}
	return ops
}

func args(op string) []string {
	i := strings.Index(op, "(")
	if i < 0 {
		return nil
	}
	return strings.Split(strings.TrimSuffix(op[i+1:], ")"), ",")
}

func (in *inst) callback(x *intr) ndn.ExpressCallbackFunc {
	return func(a ndn.ExpressCallbackArgs) {
		kind := "other"
		switch a.Result {
		case ndn.InterestResultData:
			kind = "Data"
		case ndn.InterestResultNack:
			kind = "Nack"
		case ndn.InterestResultTimeout:
			kind = "Timeout"
		}
		x.res = append(x.res, result{kind: kind, op: in.curOp})
		if x.retry != "" && len(x.res) == 1 && (kind == "Timeout" || kind == "Nack") {
			in.deferred = append(in.deferred, x)
		}
		if len(x.res) > 1 {
			in.bad("C20.once", fmt.Sprintf("callback invoked twice: %s result, then %s result", x.res[0].kind, kind),
				fmt.Sprintf("%s: callback invoked %d times: %v", x.desc(), len(x.res), x.res))
		}
		switch kind {
		case "Data":
			if a.Data == nil {
				in.bad("C20.match", "Data result without a Data packet", x.desc()+": Result=Data but args.Data is nil")
				return
			}
			dn := a.Data.Name()
			switch {
			case !x.nm.IsPrefix(dn):
				in.bad("C20.match", "Data with a name the Interest name is not a prefix of", fmt.Sprintf("%s resolved with Data %s", x.desc(), dn))
			case len(dn) > len(x.nm) && !x.cbp:
				in.bad("C20.match", "Data with a longer name delivered to an Interest without CanBePrefix", fmt.Sprintf("%s resolved with Data %s", x.desc(), dn))
			}
			if x.digest != nil {
				h := sha256.Sum256(a.RawData.Join())
				if !bytes.Equal(h[:], x.digest) {
					in.bad("C20.match", "Data whose implicit digest differs from the requested one", fmt.Sprintf("%s (digest %x…) resolved with Data %s of digest %x…", x.desc(), x.digest[:4], dn, h[:4]))
				}
			}
		case "Timeout":
			if el := in.tm.now.Sub(x.at); el < x.life {
				k := "timeout result before the Interest lifetime elapsed"
				if x.noLife {
					k += " (Interest expressed without a lifetime: protocol default of 4 s)"
				}
				in.bad("C20.timeout", k, fmt.Sprintf("%s timed out %v after Express", x.desc(), el))
			}
		case "Nack":
			// "with a Nack for that name": the only event that may cause it is the arrival of a Nack
			// carrying this Interest's name (the implicit-digest component is not compared: lenient).
			if in.curKind != "Nack" || in.curName != x.name {
				in.bad("C20.match", "Nack result for an Interest of a different name", fmt.Sprintf("%s got a Nack result during %s", x.desc(), in.curOp))
			}
		default:
			in.bad("C20.match", "callback with a result that is neither Data, Nack nor timeout", fmt.Sprintf("%s: result %v", x.desc(), a.Result))
		}
	}
}

func (s *sys) satisfies(x *intr, dname string, d *dataPkt) bool {
	if x.name != dname && !(x.cbp && strings.HasPrefix(dname, x.name+"/")) {
		return false
	}
	if x.digest != nil && !bytes.Equal(x.digest, d.digest) {
		return false
	}
	return true
}

// arriveData: a Data packet for name arrives on the face (lp: "" bare, "tok"/"plain" in an NDNLPv2
// frame) and the oracle for the arrival is evaluated: every pending Interest it satisfies must have
// been resolved when the receive path returns. Called for a Data event of its own and for an
// arrival inside face.Send (in.sending != nil: the Interest whose Express is transmitting).
func (s *sys) arriveData(in *inst, name, lp string) {
	in.curName = name
	d := dataFor(name)
	var must []*intr
	for _, x := range in.ints {
		if len(x.res) == 0 && !x.failed && s.satisfies(x, name, d) {
			must = append(must, x)
		}
	}
	// The implicit digest is that of the Data packet itself, however it is framed on the link.
	if lp != "" {
		in.face.onPkt(enc.NewBufferReader(lpWrap(d.wire, lp == "tok")))
	} else {
		in.face.onPkt(enc.NewBufferReader(d.wire))
	}
	for _, x := range must {
		if len(x.res) == 0 {
			if x == in.sending {
				// the Interest is on the wire (Send was called with it): its answer may arrive from that moment on
				why := "the Interest is not in the PIT while it is being transmitted"
				if x.entry != nil {
					why = "its entry was in the PIT"
					if x.lostBy != "" {
						why = x.lostBy
					}
				}
				in.bad("C20.all", "Data arriving while Express is still transmitting the Interest (delivered inside face.Send) does not resolve it; "+why,
					fmt.Sprintf("%s: the face delivered Data %s to the engine before Send returned; the Interest is satisfied by it, but its callback was not invoked (%s)", x.desc(), name, why))
				continue
			}
			why := x.lostBy
			if why == "" {
				why = "its entry is still reachable in the PIT"
			}
			in.bad("C20.all", "arriving Data leaves a pending Interest it satisfies unresolved; "+why,
				fmt.Sprintf("Data %s arrived, %s was pending and is satisfied by it, but its callback was not invoked (%s)", name, x.desc(), why))
		}
	}
}

func (s *sys) arriveNack(in *inst, name string) {
	in.curName = name
	in.face.onPkt(enc.NewBufferReader(nackWire(name)))
}

// findEntry: (white box) the identity of x's own record in the PIT node of its name: the last entry of
// that node which belongs to no other Interest of the model; nil if there is none.
func (in *inst) findEntry(x *intr) (node, entry any) {
	owned := map[any]bool{}
	for _, y := range in.ints {
		if y != x && y.entry != nil {
			owned[y.entry] = true
		}
	}
	node = in.eng.VerifPitExact(x.nm)
	if ch := basic.VerifPitChain(node); len(ch) > 0 {
		for _, e := range ch[0].Entries {
			if !owned[e] {
				entry = e
			}
		}
	}
	return
}

// duringSend arms the face: the arrival described by ev ("Data(<name>)" / "Nack(<name>)") is
// delivered inside the next face.Send, i.e. while Express for x is still running.
func (s *sys) duringSend(in *inst, x *intr, ev string) {
	kind, name := ev[:strings.Index(ev, "(")], strings.TrimSuffix(ev[strings.Index(ev, "(")+1:], ")")
	in.face.during = func() {
		// A receive path that needs the PIT lock cannot run while the sender holds it: on a real face this
		// is a self-deadlock of the calling goroutine. Reported instead of performed.
		if st := in.eng.VerifPitLockState(); st == "held" {
			in.bad("C20.once", "Express calls face.Send with the PIT lock held: an answer delivered inside Send deadlocks the engine",
				fmt.Sprintf("%s: face.Send was called while the engine's PIT lock was held; a face that hands the answer (%s) to the engine before Send returns blocks forever in the receive path, no Interest resolves any more", x.desc(), ev))
			return
		}
		ok, on, oc := in.curKind, in.curName, in.sending
		in.sending = x
		// the record Express has (or has not yet) put into the PIT, before the arrival changes the trie
		x.node, x.entry = in.findEntry(x)
		in.curKind = kind
		switch kind {
		case "Data":
			s.arriveData(in, name, "")
		case "Nack":
			s.arriveNack(in, name)
		default:
			report.Fatal("harness: unknown arrival %q", ev)
		}
		s.track(in)
		in.curKind, in.curName, in.sending = ok, on, oc
	}
}

// step executes one event on the real engine and evaluates the oracle for it.
func (s *sys) step(in *inst, op string) []report.Violation {
	in.viol = nil
	in.hist = append(in.hist, op)
	in.curOp = op
	in.curKind = op
	if i := strings.Index(op, "("); i > 0 {
		in.curKind = op[:i]
	}
	in.curName = ""
	in.curCalls = nil
	a := args(op)
	switch in.curKind {
	case "Express":
		x := &intr{id: len(in.ints), name: a[0], nm: nm(a[0]), dig: strings.TrimPrefix(a[3], "dig="), at: in.tm.now}
		x.cbp = a[1] == "cbp=true"
		var l int
		fmt.Sscanf(a[2], "life=%d", &l)
		x.life = time.Duration(l) * ms
		if l < 0 {
			// no lifetime in the InterestConfig: "If the InterestLifetime element is omitted, a default value of 4 seconds is used"
			x.life, x.noLife = defaultLife, true
		}
		for _, p := range a[4:] {
			switch {
			case strings.HasPrefix(p, "retry="):
				x.retry = strings.TrimPrefix(p, "retry=")
			case strings.HasPrefix(p, "in="):
				// the answer is delivered by the face inside Send, before Express has returned
				s.duringSend(in, x, strings.TrimPrefix(p, "in="))
			default:
				report.Fatal("harness: unknown Express parameter %q in %s", p, op)
			}
		}
		in.curName = x.name
		in.express(x)
		in.curKind, in.curName = "Express", x.name
		in.face.during = nil // Express that never reached Send: the arrival did not happen
	case "Data":
		lp := ""
		if len(a) > 1 {
			lp = strings.TrimPrefix(a[1], "lp=")
		}
		s.arriveData(in, a[0], lp)
	case "Nack":
		s.arriveNack(in, a[0])
	case "Recfg":
		// the application writes the selectors of its NEXT Interest into the config struct it re-uses
		if !in.shared {
			report.Fatal("harness: %s in a configuration without a shared InterestConfig", op)
		}
		var l int
		fmt.Sscanf(a[1], "life=%d", &l)
		in.appCfg.CanBePrefix = a[0] == "cbp=true"
		in.appCfg.MustBeFresh = in.appCfg.CanBePrefix
		in.appLife = time.Duration(l) * ms
	case "Down":
		// fault: the face goes down (Engine.Stop closes it); until Up every Send fails and nothing arrives
		if err := in.eng.Stop(); err != nil || in.face.running {
			report.Fatal("harness: Engine.Stop on a running harness face: err=%v running=%v", err, in.face.running)
		}
		in.down = true
	case "Up":
		if err := in.eng.Start(); err != nil || !in.face.running {
			report.Fatal("harness: Engine.Start on a stopped harness face: err=%v running=%v", err, in.face.running)
		}
		in.down = false
	case "Adv":
		var step int
		if n, _ := fmt.Sscanf(a[0], "%d", &step); n != 1 || step <= 0 {
			report.Fatal("harness: bad clock step in %s", op)
		}
		in.tm.now = in.tm.now.Add(time.Duration(step) * ms)
		if in.tm.dm != nil {
			// real MoveForward: runs every event strictly before the new now
			in.curKind = "timeout"
			in.tm.dm.MoveForward(time.Duration(step) * ms)
		}
	case "AdvNext":
		var nx time.Time
		for _, t := range in.tm.timers {
			if t.state == tSched && t.deadline.After(in.tm.now) && (nx.IsZero() || t.deadline.Before(nx)) {
				nx = t.deadline
			}
		}
		if !nx.IsZero() {
			in.tm.now = nx
		}
	case "AdvCall":
		var nx time.Time
		for _, h := range in.calls {
			if h.deadline.After(in.tm.now) && (nx.IsZero() || h.deadline.Before(nx)) {
				nx = h.deadline
			}
		}
		if nx.IsZero() {
			report.Fatal("harness: %s not enabled", op)
		}
		in.tm.now = nx
	case "FireRun", "Fire", "RunFired":
		var id int
		fmt.Sscanf(a[0], "t%d", &id)
		t := in.tm.timers[id]
		if t.owner >= 0 {
			in.curName = in.ints[t.owner].name
		}
		if in.curKind != "RunFired" {
			if t.state != tSched || t.deadline.After(in.tm.now) {
				report.Fatal("harness: %s not enabled", op)
			}
			t.state = tFired
		}
		if in.curKind != "Fire" {
			if t.state != tFired {
				report.Fatal("harness: %s not enabled", op)
			}
			in.runTimer(t)
		}
	case "Attach":
		// a refused Attach leaves the model unchanged (not attached / maybe attached)
		if err := in.eng.AttachHandler(nm(a[0]), in.handler(a[0])); err == nil {
			in.attached[a[0]] = aYes
			delete(in.fibLost, a[0])
		}
	case "Detach":
		in.curName = a[0]
		if err := in.eng.DetachHandler(nm(a[0])); err == nil {
			in.attached[a[0]] = aNo
		} else {
			in.attached[a[0]] = aMaybe // the property does not say what a failed detach leaves behind
		}
	case "Interest":
		l := -1
		if a[1] != "life=none" {
			fmt.Sscanf(a[1], "life=%d", &l)
		}
		life := defaultLife
		if l >= 0 {
			life = time.Duration(l) * ms
		}
		frame := ""
		if len(a) > 2 {
			frame = strings.TrimPrefix(a[2], "lp=")
		}
		in.nIn++
		name := a[0]
		arrival := in.tm.now
		// acceptable handlers: longest definitely-attached prefix; "maybe" prefixes on the way are tolerated
		var accept []string
		definite := ""
		p := name
		for p != "" {
			if st := in.attached[p]; st == aYes {
				accept = append(accept, p)
				definite = p
				break
			} else if st == aMaybe {
				accept = append(accept, p)
			}
			p = p[:strings.LastIndex(p, "/")]
		}
		w := inInterest(nm(name), time.Duration(l)*ms)
		var token []byte
		switch frame {
		case "tok":
			// every incoming Interest of a history carries its own token value
			token = []byte{0xc2, 0x00, 0x00, byte(in.nIn)}
			w = lpWrapTok(w, token)
		case "plain":
			w = lpWrapTok(w, nil)
		}
		in.face.onPkt(enc.NewBufferReader(w))
		for _, h := range in.curCalls {
			h.deadline = arrival.Add(life)
			h.frame, h.token, h.life = frame, token, strings.TrimPrefix(a[1], "life=")
			in.calls = append(in.calls, h)
		}
		ok := false
		got := "no handler"
		if len(in.curCalls) == 1 {
			got = "the handler attached at " + in.curCalls[0].handler
			for _, p := range accept {
				if p == in.curCalls[0].handler {
					ok = true
				}
			}
		} else if len(in.curCalls) == 0 {
			ok = definite == ""
		} else {
			got = fmt.Sprintf("%d handlers", len(in.curCalls))
		}
		if !ok {
			want := "no handler (none attached on a prefix)"
			k := "incoming Interest handed to a handler although none is attached on a prefix of its name"
			if definite != "" {
				want = "the handler attached at " + definite
				if w := in.fibLost[definite]; w != "" {
					k = "incoming Interest not handed to the handler at the longest attached prefix; " + w + " dropped that handler from the FIB"
				} else {
					k = "incoming Interest not handed to the handler at the longest attached prefix although it is in the FIB"
				}
			}
			in.bad("C20.lpm", k, fmt.Sprintf("Interest %s went to %s, longest-prefix match over the attached prefixes requires %s", name, got, want))
		}
	case "Quiesce":
		in.hist = in.hist[:len(in.hist)-1]
		return s.CheckState(in)
	case "Reply":
		var id int
		fmt.Sscanf(a[0], "h%d", &id)
		var h *hcall
		for i, c := range in.calls {
			if c.id == id {
				h = c
				in.calls = append(append([]*hcall{}, in.calls[:i]...), in.calls[i+1:]...)
				break
			}
		}
		if h == nil {
			report.Fatal("harness: %s not enabled", op)
		}
		d := dataFor(h.name)
		n0 := len(in.face.sent)
		err := h.reply(enc.Wire{d.wire})
		sent := len(in.face.sent) > n0
		how := "a bare Interest"
		switch h.frame {
		case "tok":
			how = "an Interest that arrived in an LpPacket with a PIT token"
		case "plain":
			how = "an Interest that arrived in an LpPacket"
		}
		switch {
		case in.tm.now.Before(h.deadline) && in.down:
			// the face is down: nothing can be transmitted, whatever the engine answers is accepted
		case in.tm.now.Before(h.deadline):
			if !sent || err != nil {
				in.bad("C20.deadline", "reply before the deadline not transmitted", fmt.Sprintf("Reply for Interest %s (%s) %v before its deadline: err=%v, transmitted=%v", h.name, how, h.deadline.Sub(in.tm.now), err, sent))
			} else if why := replyFrame(in.face.sent[n0], d, h); why != "" {
				in.bad("C20.deadline", "reply before the deadline not transmitted: "+why, fmt.Sprintf("Reply for Interest %s (%s) %v before its deadline put frame %x on the face; the reply Data is %x", h.name, how, h.deadline.Sub(in.tm.now), in.face.sent[n0], d.wire))
			}
		case in.tm.now.After(h.deadline):
			if sent {
				in.bad("C20.deadline", "reply transmitted after the deadline", fmt.Sprintf("Reply for Interest %s (%s) %v after its deadline was transmitted (err=%v)", h.name, how, in.tm.now.Sub(h.deadline), err))
			}
		}
	default:
		report.Fatal("harness: unknown op %q", op)
	}
	in.runDeferred("late")
	s.track(in)
	return in.viol
}

// replyFrame: is the frame the engine put on the face a transmission of the reply Data d for the
// Interest of h? "" = yes. Accepted: the Data wire itself, or an NDNLPv2 LpPacket whose Fragment is
// the Data wire (the property does not prescribe the framing, and does not demand that the PIT
// token of the Interest is echoed); a frame that carries a PIT token OTHER than the one the
// Interest arrived with is addressed to a different pending Interest and is not accepted.
func replyFrame(frame []byte, d *dataPkt, h *hcall) string {
	if bytes.Equal(frame, d.wire) {
		return ""
	}
	pkt, _, err := spec.ReadPacket(enc.NewBufferReader(frame))
	if err != nil || pkt == nil {
		return "the frame sent is not a parsable packet"
	}
	if pkt.LpPacket == nil || !bytes.Equal(pkt.LpPacket.Fragment.Join(), d.wire) {
		return "the frame sent does not carry the reply Data"
	}
	if pkt.LpPacket.Nack != nil {
		return "the frame sent is a Nack"
	}
	if t := pkt.LpPacket.PitToken; len(t) > 0 && h.token != nil && !bytes.Equal(t, h.token) {
		return "the frame sent carries a PIT token other than the Interest's"
	}
	return ""
}

// express hands x to the real engine and records the white-box identities of its PIT entry/node.
func (in *inst) express(x *intr) {
	x.id = len(in.ints)
	x.at = in.tm.now
	full := x.nm
	if x.dig != "none" {
		x.digest = append([]byte{}, dataFor(x.name).digest...)
		if x.dig == "wrong" {
			x.digest[0] ^= 0xff
		}
		full = append(append(enc.Name{}, x.nm...), enc.Component{Typ: enc.TypeImplicitSha256DigestComponent, Val: x.digest})
	}
	in.ints = append(in.ints, x)
	in.tm.curOwner = x.id
	var err error
	var ei *ndn.EncodedInterest
	switch {
	case in.shared && x.noLife:
		report.Fatal("harness: an Interest without lifetime in the shared-config style is not modelled")
	case in.shared:
		// one config struct per application: set the fields for this Interest in place
		in.appCfg.CanBePrefix = x.cbp
		in.appCfg.MustBeFresh = x.cbp
		in.appLife = x.life
		in.appCfg.Nonce = nil
		if x.gen > 0 {
			g := uint64(x.gen)
			in.appCfg.Nonce = &g
		}
		var e2 error
		if ei, e2 = (spec.Spec{}).MakeInterest(full, in.appCfg, nil, nil); e2 != nil {
			report.Fatal("MakeInterest(%s): %v", full, e2)
		}
	case x.noLife:
		ic := &ndn.InterestConfig{CanBePrefix: x.cbp}
		if x.gen > 0 {
			g := uint64(x.gen)
			ic.Nonce = &g
		}
		var e2 error
		if ei, e2 = (spec.Spec{}).MakeInterest(full, ic, nil, nil); e2 != nil {
			report.Fatal("MakeInterest(%s): %v", full, e2)
		}
	case x.gen > 0:
		ei = mkInterest(full, x.cbp, x.life, uint64(x.gen))
	default:
		ei = mkInterest(full, x.cbp, x.life)
	}
	err = in.eng.Express(ei, in.callback(x))
	in.tm.curOwner = -1
	if err != nil {
		if !in.down {
			report.Fatal("Express(%s) on a running harness face failed: %v", x.name, err)
		}
		x.failed = true
	}
	// (an Interest whose record was already identified when an arrival was delivered inside Send keeps
	// that identity; one already resolved there has no entry any more)
	if x.entry == nil && len(x.res) == 0 {
		x.node, x.entry = in.findEntry(x)
	}
	if x.node == nil {
		x.node = in.eng.VerifPitExact(x.nm)
	}
}

// runDeferred performs the re-expressions queued by callbacks (mode "early": only those of
// Interests expressed with retry=early; mode "late": everything still queued).
func (in *inst) runDeferred(mode string) {
	q := in.deferred
	in.deferred = nil
	for _, x := range q {
		if mode == "early" && x.retry != "early" {
			in.deferred = append(in.deferred, x)
			continue
		}
		in.express(&intr{name: x.name, nm: x.nm, cbp: x.cbp, life: x.life, noLife: x.noLife, dig: x.dig, gen: x.gen + 1})
	}
}

// runTimer runs the callback of a fired timer. For the violation keys it notes (white box) whether
// the PIT node captured by the timeout closure, or one of its ancestors, had already been detached
// from the trie ("stale").
func (in *inst) runTimer(t *tmr) { in.runTimerM(t, "late") }

// runTimerM: mode "late": every re-expression the callbacks queued is performed right after the
// timer function; "early": only those of retry=early Interests, the others stay queued.
func (in *inst) runTimerM(t *tmr, mode string) {
	in.curKind = "timeout"
	in.curName = ""
	if t.owner >= 0 {
		in.curName = in.ints[t.owner].name
		for _, l := range basic.VerifPitChain(in.ints[t.owner].node) {
			if strings.HasPrefix(l.Path, "detached") || strings.HasPrefix(l.Path, "orphaned") {
				in.curKind = "stale timeout"
			}
		}
	}
	t.state = tDone
	t.f()
	in.runDeferred(mode)
}

func (in *inst) handler(prefix string) ndn.InterestHandler {
	return func(a ndn.InterestHandlerArgs) {
		in.curCalls = append(in.curCalls, &hcall{id: in.nIn*10 + len(in.curCalls), handler: prefix, name: a.Interest.Name().String(), reply: a.Reply})
	}
}

// track records (white box, only to give violations root-cause-level keys) by which kind of event a
// still pending Interest stopped being reachable from the PIT root / an attached handler left the FIB.
func (s *sys) track(in *inst) {
	reach := map[any]bool{}
	for _, n := range in.eng.VerifPitDump() {
		for _, e := range n.Entries {
			reach[e] = true
		}
	}
	for _, x := range in.ints {
		if len(x.res) == 0 && x.entry != nil && x.lostBy == "" && !reach[x.entry] {
			r := rel(in.curName, x.name)
			// onData/timeoutFunc prune upwards from the node of the Data/timed-out name; a pending
			// Interest on another branch or below that node (ancestor/unrelated relation) can only be
			// lost because a node on that path was pruned although it still had children.
			above := r == "a shorter (ancestor) name" || r == "an unrelated name"
			switch {
			case in.curKind == "Express" && in.down:
				x.lostBy = "its entry left the PIT when a later Express for " + r + " failed to send (face down)"
			case in.curKind == "Down" || in.curKind == "Up":
				x.lostBy = "its entry left the PIT when the face went " + strings.ToLower(in.curKind) + " (Engine.Stop/Start)"
			case in.curKind == "stale timeout":
				x.lostBy = "its PIT node was removed by the timeout of an earlier Interest whose own node had already been detached (stale node prunes by key)"
			case (in.curKind == "Data" || in.curKind == "timeout") && above:
				x.lostBy = "its PIT node was cut off when a Data arrival/timeout pruned an emptied ancestor node that still had children (DeleteIf)"
			case in.curKind == "Nack" && r != "the same name":
				x.lostBy = "its PIT node was cut off by a Nack arrival for a different (ancestor/descendant) name (onNack Delete)"
			default:
				x.lostBy = fmt.Sprintf("its entry left the PIT trie during a %s for %s", in.curKind, r)
			}
		}
	}
	has := map[string]bool{}
	for _, n := range in.eng.VerifFibDump() {
		if n.HasHandler {
			has[n.Path] = true
		}
	}
	for p, st := range in.attached {
		if st == aYes && !has[p] && in.fibLost[p] == "" {
			if r := rel(in.curName, p); in.curKind == "Detach" && r != "the same name" {
				in.fibLost[p] = "DetachHandler of a different (ancestor/descendant) prefix"
			} else {
				in.fibLost[p] = fmt.Sprintf("%s of %s", in.curKind, strings.Replace(r, "name", "prefix", 1))
			}
		}
	}
}

func (s *sys) Apply(i any, op explore.Op) []report.Violation {
	in := i.(*inst)
	if op.Name == "Quiesce" {
		return s.step(in, op.Name)
	}
	in.dmRan = nil
	v := append([]report.Violation{}, s.step(in, op.Name)...)
	if in.ref != nil {
		s.step(in.ref, op.Name)
		if strings.HasPrefix(op.Name, "Adv(") {
			refRunDue(in.ref, in.dmRan)
		}
		v = append(v, diffRef(in, op.Name)...)
	}
	return v
}
func (s *sys) Do(i any, op explore.Op) { s.Apply(i, op) }

// refRunDue: on the shadow instance, what dummy.Timer.MoveForward documents: every scheduled event
// whose time is strictly before now fires and runs. Neither the property nor dummy.Timer orders
// events that are due in the same MoveForward, and re-expressions queued by callbacks for "after
// the event" are performed by the main run when MoveForward has returned; both choices can change
// which PIT node a re-expressed Interest lands in and therefore which (legal) timeout sweep resolves
// it. The shadow therefore takes the SAME schedule as the main run: due events run in the order in
// which dummy.Timer ran their counterparts (order = Schedule sequence numbers, which are the
// shadow's timer ids), "late" re-expressions are performed after the last of them. An event
// dummy.Timer ran although it is not due or was cancelled on the shadow is not mirrored, a due
// event dummy.Timer did not run is run afterwards (deadline order): either way the results differ
// and diffRef reports it.
func refRunDue(r *inst, order []int) {
	for _, id := range order {
		if id < len(r.tm.timers) {
			if t := r.tm.timers[id]; t.state == tSched && t.deadline.Before(r.tm.now) {
				r.runTimerM(t, "early")
			}
		}
	}
	for {
		var nx *tmr
		for _, t := range r.tm.timers {
			if t.state == tSched && t.deadline.Before(r.tm.now) && (nx == nil || t.deadline.Before(nx.deadline)) {
				nx = t
			}
		}
		if nx == nil {
			break
		}
		r.runTimerM(nx, "early")
	}
	r.runDeferred("late")
}

// diffRef: the run on dummy.Timer and the shadow run on the harness timer must have delivered the
// same results to the same Interests (order inside one event is not compared: the property does
// not order callbacks of different Interests).
func diffRef(in *inst, op string) []report.Violation {
	sig := func(l []*intr) (lines, kinds []string) {
		for _, x := range l {
			k := ""
			for _, r := range x.res {
				k += r.kind[:1]
			}
			lines = append(lines, x.desc()+" -> ["+k+"]")
		}
		sort.Strings(lines)
		for _, ln := range lines {
			kinds = append(kinds, ln[strings.LastIndex(ln, " -> [")+4:])
		}
		return
	}
	a, ak := sig(in.ints)
	b, bk := sig(in.ref.ints)
	if strings.Join(a, ";") == strings.Join(b, ";") {
		return nil
	}
	ka, kb := "(no such Interest)", "(no such Interest)"
	for i := 0; i < len(a) || i < len(b); i++ {
		x, y := "", ""
		if i < len(a) {
			x = a[i]
		}
		if i < len(b) {
			y = b[i]
		}
		if x != y {
			if i < len(a) {
				ka = ak[i]
			}
			if i < len(b) {
				kb = bk[i]
			}
			break
		}
	}
	return []report.Violation{{Clause: "C20.timerdiff",
		Key:    fmt.Sprintf("same events, different callbacks: on dummy.Timer %s, on the harness timer (AfterFunc semantics, due = strictly before now) %s", ka, kb),
		Detail: fmt.Sprintf("after %s: on dummy.Timer %v, on the harness timer %v", op, a, b)}}
}

// CheckState: quiescence closure. All remaining timers fire and run (time jumps far ahead); then
// every expressed Interest must have been resolved exactly once. Destroys the instance.
func (s *sys) CheckState(i any) []report.Violation {
	in := i.(*inst)
	in.viol = nil
	in.curOp = "quiescence (fired timers run, the remaining ones fire and run on time in deadline order)"
	if in.tm.dm != nil {
		// dummy.Timer: two long MoveForward calls run everything that is still scheduled
		in.curKind, in.curName = "timeout", ""
		for k := 0; k < 3; k++ {
			in.tm.now = in.tm.now.Add(time.Hour)
			in.dmRan = nil
			in.tm.dm.MoveForward(time.Hour)
			in.runDeferred("late")
			in.ref.tm.now = in.ref.tm.now.Add(time.Hour)
			refRunDue(in.ref, in.dmRan)
		}
	}
	// already fired timers run now; the others fire and run on time, in deadline order
	for k := 0; k < len(in.tm.timers); k++ {
		if t := in.tm.timers[k]; t.state == tFired {
			in.runTimer(t)
		}
	}
	for {
		var nx *tmr
		for _, t := range in.tm.timers {
			if t.state == tSched && (nx == nil || t.deadline.Before(nx.deadline)) {
				nx = t
			}
		}
		if nx == nil {
			break
		}
		if nx.deadline.After(in.tm.now) {
			in.tm.now = nx.deadline
		}
		in.runTimer(nx)
	}
	reach := map[any]bool{}
	for _, n := range in.eng.VerifPitDump() {
		for _, e := range n.Entries {
			reach[e] = true
		}
	}
	for _, x := range in.ints {
		if len(x.res) == 0 && !x.failed {
			k, why := "callback never invoked although every timer has fired and run", ""
			if x.lostBy != "" {
				why = " (" + x.lostBy + ")"
				if strings.Contains(x.lostBy, "failed to send") {
					k += "; " + x.lostBy
				}
			} else if x.entry != nil && reach[x.entry] {
				// (white box, key only) the entry never left the PIT: which timeout sweep passed it over?
				own := false
				for _, t := range in.tm.timers {
					if t.owner == x.id && t.state == tDone {
						own = true
					}
				}
				if own {
					k += "; its own timeout ran after its deadline and left its expired entry in the PIT (timeout sweep skipped it)"
				} else {
					k += "; its entry is still in the PIT and its own timeout was cancelled or never scheduled"
				}
				why = " (entry still reachable in the PIT)"
			} else if x.entry == nil {
				k += "; it never had an entry in the PIT"
			}
			in.bad("C20.once", k, fmt.Sprintf("%s expressed, all timers fired and run, callback count 0%s", x.desc(), why))
		}
	}
	if in.ref != nil {
		in.viol = append(in.viol, diffRef(in, in.curOp)...)
	}
	for i := range in.viol {
		in.viol[i].Replay = map[string]any{"config": s.name, "ops": append(append([]string{}, in.hist...), "Quiesce")}
	}
	return in.viol
}

// ---------------------------------------------------------------- canonical state

func relMs(d time.Duration) string {
	if d <= 0 {
		return "due"
	}
	return fmt.Sprint(int64(d / ms))
}

func (in *inst) entryDesc(byEntry map[any]*intr, e any) string {
	x := byEntry[e]
	if x == nil {
		// an entry the model cannot attribute to an Interest: described from the record's private fields
		// (read by name through reflection; a field this tree does not have shows as "<absent>")
		inf := basic.VerifPitEntryInfo(e)
		dl := basic.VerifAbsent
		if inf.HasDeadline {
			dl = relMs(inf.Deadline.Sub(in.tm.now))
		}
		return fmt.Sprintf("?%s,%s,%s,%s", inf.CanBePrefix, inf.HasDigest, dl, inf.Other)
	}
	return in.intrDesc(x)
}

func (in *inst) intrDesc(x *intr) string {
	ks := ""
	for _, r := range x.res {
		ks += r.kind[:1]
	}
	f := ""
	if x.failed {
		f = "!"
	}
	if x.noLife {
		f += "d"
	}
	return fmt.Sprintf("%s,%v,%s,%s,[%s],%s,%s%d%s", x.name, x.cbp, x.dig, relMs(x.at.Add(x.life).Sub(in.tm.now)), ks, x.lostBy, x.retry, x.gen, f)
}

func (in *inst) nodeDesc(byEntry map[any]*intr, n basic.VerifPitNode) string {
	var es []string
	for _, e := range n.Entries {
		es = append(es, in.entryDesc(byEntry, e))
	}
	return fmt.Sprintf("%s{%s}c%d", n.Path, strings.Join(es, ";"), n.NChild)
}

// Canon: everything that can influence the future.
//   - the reachable PIT trie, node by node, with the entries in list order (each entry described by
//     the attributes of its Interest: name, CanBePrefix, digest kind, deadline relative to now
//     (saturated at "due": the engine only asks deadline.After(now)), results so far);
//   - every timer that can still run (scheduled or fired), with its deadline relative to now
//     (saturated at "due") and the chain node→root of the PIT node its closure captured (attached
//     or detached at each level, child count, entries): that is all Delete/DeleteIf on it can touch;
//   - every pending Interest with the same chain for its node (covers entries in detached nodes);
//   - the number of Interests expressed (bounds the alphabet);
//   - shared-config style: the current content of the application's config struct (the engine may hold
//     a reference to it); fault configurations: whether the face is down, and per Interest whether
//     its Express returned an error;
//   - the reachable FIB trie, the model's attached map, pending handler invocations (handler,
//     name, deadline relative to now with sign preserved, InterestLifetime form and link framing
//     of the Interest) and the count of Interests received.
//
// Absolute time, Interest/timer/handler-call sequence numbers and pointer values are not part of
// it: the engine compares time only against Now, and identities matter only through list order
// inside one node (kept) — timers and pending Interests are sorted by description.
func (s *sys) Canon(i any) string {
	in := i.(*inst)
	byEntry := map[any]*intr{}
	for _, x := range in.ints {
		if x.entry != nil {
			byEntry[x.entry] = x
		}
	}
	var b strings.Builder
	for _, n := range in.eng.VerifPitDump() {
		b.WriteString(in.nodeDesc(byEntry, n))
		b.WriteString("|")
	}
	chain := func(node any) string {
		var p []string
		for _, n := range basic.VerifPitChain(node) {
			p = append(p, in.nodeDesc(byEntry, n))
		}
		return strings.Join(p, "<")
	}
	var ts []string
	for _, t := range in.tm.timers {
		if t.state == tSched || t.state == tFired {
			c := "-"
			if t.owner >= 0 {
				c = in.ints[t.owner].name + ":" + chain(in.ints[t.owner].node)
			}
			ts = append(ts, fmt.Sprintf("T%d,%s,%s", t.state, relMs(t.deadline.Sub(in.tm.now)), c))
		}
	}
	sort.Strings(ts)
	b.WriteString("#T" + strings.Join(ts, "|"))
	var ps []string
	for _, x := range in.ints {
		if len(x.res) == 0 {
			ps = append(ps, in.intrDesc(x)+"@"+chain(x.node))
		}
	}
	sort.Strings(ps)
	fmt.Fprintf(&b, "#P%s#n%d", strings.Join(ps, "|"), len(in.ints))
	b.WriteString("#F")
	for _, n := range in.eng.VerifFibDump() {
		fmt.Fprintf(&b, "%s:%v:%d|", n.Path, n.HasHandler, n.NChild)
	}
	var as []string
	for p, st := range in.attached {
		if st != aNo {
			as = append(as, fmt.Sprintf("%s=%d%s", p, st, in.fibLost[p]))
		}
	}
	sort.Strings(as)
	b.WriteString("#A" + strings.Join(as, "|"))
	var cs []string
	for _, h := range in.calls {
		d := h.deadline.Sub(in.tm.now)
		r := "late"
		if d >= 0 {
			r = fmt.Sprint(int64(d / ms))
		}
		// the lifetime form and framing are part of it: the Reply closure holds a deadline and a token
		// computed by the engine from them, which the model's deadline only mirrors
		cs = append(cs, fmt.Sprintf("%s>%s,%s,%s,%s", h.name, h.handler, r, h.life, h.frame))
	}
	// call ids are positional (Reply(h<id>)), keep list order
	fmt.Fprintf(&b, "#C%s#i%d", strings.Join(cs, "|"), in.nIn)
	if in.shared {
		// the application's config struct: a reference the engine may have kept points at it
		fmt.Fprintf(&b, "#S%v,%d", in.appCfg.CanBePrefix, in.appLife/ms)
	}
	if in.down {
		b.WriteString("#down")
	}
	if s.c.audit {
		b.WriteString("#H" + strings.Join(in.hist, ";"))
	}
	if in.tm.dm != nil {
		// dummy configurations: the slot table of dummy.Timer in slot order (dead slots are re-used by
		// Schedule, so their positions count), every live slot with its expiry instant relative to now,
		// the Interest whose timeout it is (name, still pending?) and the slot index its cancel closure
		// remembers; pending Interests whose closure is in no live slot any more; then the shadow run.
		// Without the white-box dump: the history (no de-duplication).
		slots, ok := in.tm.dm.VerifSlots()
		if !ok {
			b.WriteString("#H" + strings.Join(in.hist, ";"))
		} else {
			byID := map[uintptr]*dmRec{}
			for _, r := range in.tm.dmRecs {
				if r.fid != 0 {
					byID[r.fid] = r
				} else {
					ok = false
				}
			}
			if !ok {
				b.WriteString("#H" + strings.Join(in.hist, ";"))
			}
			b.WriteString("#DM")
			liveID := map[uintptr]bool{}
			for _, sl := range slots {
				if !sl.Live {
					b.WriteString("D|")
					continue
				}
				liveID[sl.ID] = true
				o := "?"
				if r := byID[sl.ID]; r != nil && r.owner >= 0 && r.owner < len(in.ints) {
					x := in.ints[r.owner]
					o = fmt.Sprintf("%s,%v,%d", x.name, len(x.res) == 0, r.idx0)
				}
				fmt.Fprintf(&b, "L%d,%s|", int64(sl.T.Sub(in.tm.dm.Now())/ms), o)
			}
			var lost []string
			for _, r := range in.tm.dmRecs {
				if r.owner >= 0 && r.owner < len(in.ints) && len(in.ints[r.owner].res) == 0 && !liveID[r.fid] {
					lost = append(lost, fmt.Sprintf("%s,%d,%d", in.ints[r.owner].name, r.idx0, int64(r.at.Sub(in.tm.dm.Now())/ms)))
				}
			}
			sort.Strings(lost)
			b.WriteString("#X" + strings.Join(lost, "|"))
		}
		if in.ref != nil {
			b.WriteString("#REF" + s.Canon(in.ref))
		}
	}
	return b.String()
}

// ---------------------------------------------------------------- configurations

var (
	n2 = []string{"/a", "/a/b"}
	n3 = []string{"/a", "/a/b", "/a/b/c"}
	ns = []string{"/a", "/a/b", "/a/c"}
	// names whose last components carry the SAME value bytes (0x01) under different TLV types:
	// segment (50), version (54), generic (8). They are different names.
	nt = []string{"/a/seg=1", "/a/v=1", "/a/%01"}
	// pairs of DIFFERENT last components that are easily confused by a trie keyed with anything but
	// (type, value): the same URI text once as the value of a generic component and once as the
	// printed form of a typed one (generic "v=1" = /a/v%3D1 vs version 1 = /a/v=1; generic "9=x" =
	// /a/9%3Dx vs type-9 "x" = /a/9=x), and the same value bytes under three types (generic "x",
	// type-9 "x", keyword 32=x). Six different names, none a prefix of another.
	na = []string{"/a/v=1", "/a/v%3D1", "/a/9=x", "/a/9%3Dx", "/a/x", "/a/32=x"}
	// nested prefixes four levels deep (handler dispatch has to climb over >= 2 handler-less nodes)
	n4 = []string{"/a", "/a/b", "/a/b/c", "/a/b/c/d"}
)

var configs = map[string]cfgT{
	// timer/receive-path race: two nested names, both lifetimes, Fire and RunFired as separate events
	"race": {names: n2, cbps: []bool{false, true}, lives: []int{10, 20}, digs: []string{"none"}, maxInt: 3,
		dataNames: n3, nackNames: n2, advNext: true, adv10: true, split: true},
	// a node with two children (pruning one child must keep the other), plus unsolicited Data /x
	// whose longest-prefix PIT node is the root
	"siblings": {names: ns, cbps: []bool{false, true}, lives: []int{10, 20}, digs: []string{"none"}, maxInt: 3,
		dataNames: []string{"/a", "/a/b", "/a/c", "/x"}, nackNames: ns, advNext: true},
	// three nested names, one lifetime, timeouts atomic
	"names": {names: n3, cbps: []bool{false, true}, lives: []int{10, 20}, digs: []string{"none"}, maxInt: 3,
		dataNames: n3, nackNames: n3, advNext: true},
	// implicit digests
	"digest": {names: n2, cbps: []bool{false, true}, lives: []int{10}, digs: []string{"none", "right", "wrong"}, maxInt: 3,
		dataNames: n2, lpData: []string{"tok", "plain"}, nackNames: []string{"/a"}, advNext: true},
	// producer side: handler registration histories, longest-prefix dispatch, reply deadline
	"handler": {prefixes: n4, inNames: []string{"/a", "/a/b", "/a/b/c", "/a/b/c/d", "/a/b/c/x", "/a/x"}, inLives: []int{10, 20}, maxIn: 2, adv10: true},
	// component types: names equal in every component's value bytes but not in its type must not
	// share PIT nodes (Data/Nack for one must not resolve the other) ...
	"typed": {names: nt, cbps: []bool{false, true}, lives: []int{10}, digs: []string{"none"}, maxInt: 3,
		dataNames: append([]string{"/a"}, nt...), lpData: []string{"tok"}, nackNames: nt, advNext: true},
	// ... nor FIB nodes (handlers attached at such prefixes must not collide)
	"typedh": {prefixes: nt, inNames: nt, inLives: []int{10}, maxIn: 2, adv10: true},
	// look-alike components (see na): expressed Interests, Data and Nack arrivals ...
	"ambig": {names: na, cbps: []bool{false, true}, lives: []int{10}, digs: []string{"none"}, maxInt: 3,
		dataNames: append([]string{"/a"}, na...), nackNames: na, advNext: true},
	// ... and handler prefixes / incoming Interests
	"ambigh": {prefixes: na, inNames: na, inLives: []int{10}, maxIn: 2, adv10: true},
	// reply deadline: every InterestLifetime form of an incoming Interest (element absent = 4 s
	// default, present with value 0, 10 ms, 20 ms) x every framing (bare, LpPacket, LpPacket with a PIT
	// token) x Reply before / exactly on (AdvCall) / after the deadline; the handler at /a receives
	// Interests for its own name and for a longer one
	"reply": {prefixes: []string{"/a"}, inNames: []string{"/a", "/a/b"}, inLives: []int{-1, 0, 10, 20}, inFrames: []string{"", "plain", "tok"},
		maxIn: 2, adv10: true, advCall: true},
	// application memory re-use: ONE InterestConfig struct (and one lifetime variable behind its
	// Lifetime pointer) per application, overwritten in place for every Express and by Recfg events
	// (every other CanBePrefix/lifetime combination) while earlier Interests made from it are still
	// pending. What an Interest matches and when it times out is fixed when it is expressed; Data with
	// the exact and with longer names then tells whether a pending Interest changed its mind.
	"reuse": {shared: true, names: n2, cbps: []bool{false, true}, lives: []int{10, 20}, digs: []string{"none"}, maxInt: 3,
		dataNames: n3, nackNames: []string{"/a"}, advNext: true},
	// environment fault: the face goes Down (Engine.Stop; every Send fails, nothing arrives) and Up
	// again (Engine.Start). Down is a deviation (explore.Config.MaxDev face-down periods per history).
	// Interests expressed successfully before/after the fault must resolve exactly once; an Express
	// that returned an error may resolve at most once (see intr.failed).
	"fault": {faults: true, names: n2, cbps: []bool{false, true}, lives: []int{10, 20}, digs: []string{"none"}, maxInt: 3,
		dataNames: n2, nackNames: []string{"/a"}, advNext: true},
	// the same fault over duplicates that differ in the implicit digest only (they share a PIT node)
	"faultd": {faults: true, names: []string{"/a"}, cbps: []bool{false}, lives: []int{10}, digs: []string{"none", "right", "wrong"}, maxInt: 3,
		dataNames: []string{"/a"}, nackNames: []string{"/a"}, advNext: true},
	// lifetimes in every order at ONE PIT node (and its child): three lifetimes whose pairwise differences
	// are equal to (10/20) and larger than (10/40, 20/40) the engine's timeout margin of 10 ms, so that an
	// Interest expressed LATER can expire - and its own timeout run - while an EARLIER one of the same node
	// is still alive; duplicates, CanBePrefix mix (Data /a/b resolves only the CanBePrefix ones and cancels
	// their timeouts), Fire / RunFired split. The pending list of a node is then in no deadline order.
	"life": {names: []string{"/a"}, cbps: []bool{false, true}, lives: []int{10, 20, 40}, digs: []string{"none"}, maxInt: 3,
		dataNames: []string{"/a", "/a/b"}, nackNames: []string{"/a"}, advNext: true, adv10: true, split: true},
	// the same with two nested nodes (timeouts prune upwards through a node whose own entries live on);
	// life0: the two boundary forms of a lifetime: -1 = none given (InterestConfig.Lifetime nil: the protocol
	// default of 4 s applies), 0 = an explicit lifetime of zero (may time out at once, never resolves twice)
	"life2": {names: n2, cbps: []bool{false, true}, lives: []int{10, 40}, digs: []string{"none"}, maxInt: 3,
		dataNames: n3, nackNames: n2, advNext: true},
	"life0": {names: []string{"/a"}, cbps: []bool{false, true}, lives: []int{-1, 0, 10}, digs: []string{"none"}, maxInt: 3,
		dataNames: n2, nackNames: []string{"/a"}, advNext: true, adv10: true},
	// face model with a free choice of the DELIVERY POINT: every Data/Nack arrival of the universe may be
	// handed to the engine between two engine calls (Data/Nack events) or INSIDE face.Send of an Express,
	// before Send - and therefore Express - has returned (Express(...,in=<arrival>): loopback / in-process
	// face, or the face's reader goroutine winning the race against the sender). The Interest being
	// transmitted is pending from the moment it is handed to Send: a Data that satisfies it must resolve it.
	"loop": {inSend: true, names: n2, cbps: []bool{false, true}, lives: []int{10, 40}, digs: []string{"none"}, maxInt: 3,
		dataNames: n3, nackNames: []string{"/a"}, advNext: true},
	// ... with implicit digests (duplicates of one node that differ in the digest only)
	"loopd": {inSend: true, names: []string{"/a"}, cbps: []bool{false, true}, lives: []int{10}, digs: []string{"none", "right", "wrong"}, maxInt: 3,
		dataNames: n2, nackNames: []string{"/a"}, advNext: true},
	// tiny alphabets for deep history searches WITHOUT de-duplication (explore.Config.NoDedup): a bug
	// that adds hidden state no canonical form can see (cached node pointer, reused scratch slice)
	// cannot be pruned away there
	"tiny": {names: n2, cbps: []bool{false}, lives: []int{10}, digs: []string{"none"}, maxInt: 4, retries: []string{"late"},
		dataNames: n2, nackNames: []string{"/a"}, advNext: true},
	"tinyh": {prefixes: n2, inNames: n2, inLives: []int{10}, maxIn: 2, adv10: true},
	// the same small alphabet on the repository's own virtual timer (dummy.Timer): real Schedule,
	// cancel and MoveForward in 10 ms steps, which land exactly ON lifetime+TimeoutMargin (20/30 ms)
	// before passing it; shadowed event by event on the harness timer (differential). dummy.Timer
	// keeps state no canonical form here covers (slot table), hence no de-duplication.
	"dummy": {dummy: true, names: n2, cbps: []bool{false}, lives: []int{10, 20}, digs: []string{"none"}, maxInt: 3, retries: []string{"late", "early"},
		dataNames: n2, nackNames: []string{"/a"}, adv10: true},
	// dummy.Timer under the engine with DIFFERENT names whose deadlines fall on the same virtual instant
	// (sibling and nested names, equal lifetimes expressed between the same two clock steps), events that
	// fired in earlier slots, cancels (Data/Nack) after them, and a second clock step of 30 ms that passes
	// several deadlines in one MoveForward. Searched with de-duplication on a canonical state that includes
	// dummy.Timer's slot table (see Canon); the "dummy" and "dtimer" universes are the audits without.
	"dummys": {dummy: true, names: ns, cbps: []bool{false}, lives: []int{10, 20}, digs: []string{"none"}, maxInt: 4,
		dataNames: ns, nackNames: []string{"/a", "/a/b"}, adv10: true, advBig: 30},
	// both sides at once (thorough tier)
	"mixed": {names: n2, cbps: []bool{false, true}, lives: []int{10}, digs: []string{"none"}, maxInt: 2,
		dataNames: n2, lpData: []string{"tok"}, nackNames: n2, advNext: true, adv10: true, split: true,
		prefixes: n2, inNames: []string{"/a", "/a/b"}, inLives: []int{10}, maxIn: 1},
}

// build: config names are "<universe> i=<max expressed Interests> in=<max incoming Interests>".
func build(name string) explore.System {
	log.SetLevel(log.FatalLevel)
	var u string
	var mi, min int
	if n, _ := fmt.Sscanf(name, "%s i=%d in=%d", &u, &mi, &min); n != 3 {
		report.Fatal("bad config name %q", name)
	}
	if t, ok := tconfigs[u]; ok {
		// component-level search of dummy.Timer alone (dtimer.go)
		t.name, t.maxEv = name, mi
		return &t
	}
	c, ok := configs[strings.TrimPrefix(u, "audit-")]
	if !ok {
		report.Fatal("unknown config %q", name)
	}
	c.maxInt, c.maxIn = mi, min
	// the model compares names as strings: every name of the universe must be in canonical URI form
	for _, l := range [][]string{c.names, c.dataNames, c.nackNames, c.prefixes, c.inNames} {
		for _, n := range l {
			if got := nm(n).String(); got != n {
				report.Fatal("config %s: name %q is not in canonical form (%q)", name, n, got)
			}
		}
	}
	c.audit = strings.HasPrefix(u, "audit-")
	return &sys{c: c, name: name}
}

func main() {
	explore.Main(explore.Spec{
		ID: "C20", PanicClause: "C20.panic", Build: build,
		Configs: func(th bool) []explore.Config {
			type e struct {
				n   string
				d   int
				dev int // 0: no deviation events in the universe (unbounded); else the bound on face-down periods
			}
			// cheap configurations first: what they do not use of their share of the budget goes to the rest
			l := []e{{n: "loopd i=3 in=0", d: 8}, {n: "loop i=3 in=0", d: 7}, {n: "life i=3 in=0", d: 9}, {n: "life2 i=3 in=0", d: 7}, {n: "life0 i=3 in=0", d: 7}, {n: "faultd i=3 in=0", d: 8, dev: 1}, {n: "fault i=3 in=0", d: 6, dev: 1}, {n: "reuse i=3 in=0", d: 8}, {n: "reply i=0 in=2", d: 6}, {n: "ambigh i=0 in=2", d: 7}, {n: "ambig i=2 in=0", d: 6}, {n: "handler i=0 in=2", d: 8}, {n: "digest i=3 in=0", d: 7}, {n: "mixed i=2 in=1", d: 7}, {n: "typedh i=0 in=2", d: 8}, {n: "typed i=3 in=0", d: 7}, {n: "race i=4 in=0", d: 8}, {n: "names i=4 in=0", d: 7}, {n: "siblings i=4 in=0", d: 7}}
			if th {
				// audit-*: the same universes searched WITHOUT canonical-state de-duplication to a smaller
				// depth; a violation key that only shows up there would mean the canonical form merges
				// states with different futures.
				l = []e{{n: "loopd i=4 in=0", d: 8}, {n: "loop i=4 in=0", d: 7}, {n: "life i=5 in=0", d: 10}, {n: "life2 i=4 in=0", d: 9}, {n: "life0 i=4 in=0", d: 9}, {n: "faultd i=4 in=0", d: 8, dev: 2}, {n: "fault i=4 in=0", d: 8, dev: 2}, {n: "reuse i=4 in=0", d: 8}, {n: "reply i=0 in=3", d: 9}, {n: "ambigh i=0 in=3", d: 8}, {n: "ambig i=4 in=0", d: 8}, {n: "digest i=4 in=0", d: 8}, {n: "mixed i=3 in=2", d: 9}, {n: "typedh i=0 in=3", d: 8}, {n: "typed i=4 in=0", d: 8}, {n: "race i=5 in=0", d: 10}, {n: "names i=5 in=0", d: 10}, {n: "siblings i=5 in=0", d: 10},
					{n: "audit-race i=3 in=0", d: 5}, {n: "audit-names i=3 in=0", d: 4}, {n: "audit-handler i=0 in=2", d: 5},
					{n: "handler i=0 in=3", d: 12}} // biggest last: it gets whatever budget the others left
			}
			var c []explore.Config
			for _, x := range l {
				md := -1
				if x.dev > 0 {
					md = x.dev
				}
				c = append(c, explore.Config{Name: x.n, MaxDepth: x.d, MaxDev: md})
			}
			// history searches without de-duplication (both tiers), last: they take what budget is left
			hd, hh, dd, td := 6, 8, 5, 6
			if th {
				hd, hh, dd, td = 10, 10, 7, 8
			}
			sd := 7
			if th {
				sd = 10
			}
			// the component-level search of dummy.Timer and the same-instant universe on it first: both are
			// cheap up to the depth at which their shortest counterexamples live
			c = append([]explore.Config{{Name: "dtimer i=4 in=0", MaxDepth: td, MaxDev: -1, NoDedup: true}}, c...)
			// (dummys after the cheap universes, whose unused budget share it inherits, before the big ones)
			for i := range c {
				if strings.HasPrefix(c[i].Name, "race ") {
					c = append(c[:i], append([]explore.Config{{Name: "dummys i=4 in=0", MaxDepth: sd, MaxDev: -1}}, c[i:]...)...)
					break
				}
			}
			c = append(c, explore.Config{Name: "dummy i=3 in=0", MaxDepth: dd, MaxDev: -1, NoDedup: true},
				explore.Config{Name: "tiny i=4 in=0", MaxDepth: hd, MaxDev: -1, NoDedup: true},
				explore.Config{Name: "tinyh i=0 in=2", MaxDepth: hh, MaxDev: -1, NoDedup: true})
			// development aid: C20_ONLY=<prefix> runs only the configurations whose name starts with it
			if only := os.Getenv("C20_ONLY"); only != "" {
				var k []explore.Config
				for _, x := range c {
					if strings.HasPrefix(x.Name, only) {
						k = append(k, x)
					}
				}
				c = k
			}
			return c
		},
		Budget: func(th bool) time.Duration {
			if th {
				return 25 * time.Minute
			}
			return 85 * time.Second
		},
		Rule: "BFS over event histories (Express with name/CanBePrefix/lifetime/implicit digest - from a fresh InterestConfig per Interest or from one config struct the application re-uses and overwrites while Interests are pending -, face Down/Up with Express failing to send in between, Data and Nack arrivals - between two engine calls or, in the loop universes, delivered by the face inside Send while Express is still running -, clock advances, timer Fire / RunFired as separate events, Attach/DetachHandler, incoming Interests, Reply) executed on a real basic.Engine with a harness face and a harness timer; every callback invocation is checked when it happens (at most once, Data satisfies the Interest, timeout not before lifetime, Nack only for its name), every Data arrival must resolve every pending Interest it satisfies, every incoming Interest (InterestLifetime absent = 4 s default / 0 / 10 / 20 ms; bare, in an LpPacket, in an LpPacket with a PIT token) must reach the handler at the longest attached prefix, Reply must transmit the Data (bare or as LpPacket fragment, never with a PIT token other than the Interest's) before and must not transmit after the deadline (clock steps of 10 ms and jumps exactly onto a deadline, where both answers are accepted); after every transition the quiescence closure (all timers fire and run) must leave every Interest resolved exactly once",
		Assumptions: []string{
			"timer/receive interleavings are explored at the granularity of whole engine callbacks: the engine holds pitLock for the whole of onData/onNack/timeoutFunc, and starts no goroutine itself, so finer interleavings do not exist",
			"the harness timer has time.AfterFunc semantics: cancel is effective only until the timer has fired; a fired timer's callback may run arbitrarily later (goroutine blocked on pitLock)",
			"equal canonical state (reachable PIT/FIB tries, PIT-node chains captured by live timers and pending Interests, timer deadlines and Interest deadlines relative to now saturated at 'due', per-Interest results, pending handler invocations) implies equal futures",
			"an incoming Interest without InterestLifetime element has the protocol default lifetime of 4 s (NDN packet format); its deadline is arrival + lifetime; at the deadline instant itself both transmitting and refusing the reply are accepted; the property does not prescribe the link framing of a reply nor that the Interest's PIT token is echoed, only a frame carrying a different token is rejected",
			"a Nack for name N may (not must) resolve pending Interests whose name without the implicit-digest component is N; the property is silent on whether a Nack must be delivered",
			"application memory: an ndn.InterestConfig handed to MakeInterest/Express belongs to the application, which may overwrite it (CanBePrefix, MustBeFresh, the lifetime variable behind Lifetime) as soon as Express has returned; the Interest keeps the selectors and lifetime it was expressed with",
			"face fault: Engine.Stop/Start close and re-open the face (at most 1 (quick) / 2 (thorough) down periods per history); while it is down nothing arrives and Send fails. An Interest whose Express returned an error may be resolved at most once or never (the property does not say whether it counts as expressed); every other Interest, expressed before, during (none succeed) or after the fault, must resolve exactly once; a Reply while the face is down need not be transmitted",
			"face model: an arrival may be handed to the engine at every point at which the engine is not inside its own receive path: between two engine calls, or inside face.Send of an Express before Send returns (in-process/loopback face, or the reader goroutine winning the race against the sender); an Interest is pending from the moment Express hands it to face.Send, so a Data that arrives there and satisfies it must resolve it (a Nack may); an Express that calls face.Send with the PIT lock held is reported instead of executed (the receive path would block forever on a real face)",
			"lifetimes: 10/20/40 ms at one PIT node in every order with duplicates (differences equal to and larger than the engine's 10 ms timeout margin), 10/40 ms over two nested nodes, and the boundary forms 'no lifetime given' (InterestConfig.Lifetime nil: the protocol default of 4 s is the lifetime the timeout clause is measured against) and an explicit 0",
			"finite universes: names /a,/a/b,/a/b/c,/a/c (+/x Data; prefixes down to /a/b/c/d and /a/x,/a/b/c/x for incoming Interests; /a/seg=1,/a/v=1,/a/%01 for component types; /a/v=1,/a/v%3D1,/a/9=x,/a/9%3Dx,/a/x,/a/32=x for look-alike components), lifetimes 10/20 ms (life universes: 10/20/40 ms, none, 0; incoming Interests also 0 and no InterestLifetime element), at most 4 (quick) / 5 (thorough) expressed Interests and 2/3 incoming Interests per history",
		},
	})
}
