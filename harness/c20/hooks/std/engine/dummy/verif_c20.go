//go:build verif

// White-box read access to the event table of dummy.Timer for the C20 harness (/verif/harness/c20).
// Never part of a normal build (tag verif); added to the package through `go build -overlay`.
// Read-only. The table is read by NAME through reflection (field "events": a slice of structs with
// a time.Time field "t" and a func field "f"); a tree in which it looks different yields ok=false
// instead of breaking the build, and the harness then works without it (no de-duplication, no
// root-cause qualifier in violation keys).
package dummy

import (
	"reflect"
	"time"
	"unsafe"
)

// VerifSlot is one slot of the event table: its expiry instant and whether it holds a live event.
type VerifSlot struct {
	T    time.Time
	Live bool
	ID   uintptr // identity of the closure stored in the slot (0 if none): tells WHICH event a live slot holds
}

// VerifSlots dumps the event table in slot order.
func (tm *Timer) VerifSlots() (slots []VerifSlot, ok bool) {
	defer func() {
		if recover() != nil {
			slots, ok = nil, false
		}
	}()
	v := reflect.ValueOf(tm).Elem()
	f := v.FieldByName("events")
	if !f.IsValid() || f.Kind() != reflect.Slice {
		return nil, false
	}
	f = reflect.NewAt(f.Type(), unsafe.Pointer(f.UnsafeAddr())).Elem()
	slots = []VerifSlot{}
	for i := 0; i < f.Len(); i++ {
		e := f.Index(i)
		if e.Kind() == reflect.Pointer {
			if e.IsNil() {
				slots = append(slots, VerifSlot{})
				continue
			}
			e = e.Elem()
		}
		if e.Kind() != reflect.Struct {
			return nil, false
		}
		ft, ff := e.FieldByName("t"), e.FieldByName("f")
		if !ft.IsValid() || !ff.IsValid() || ff.Kind() != reflect.Func || ft.Type() != reflect.TypeOf(time.Time{}) {
			return nil, false
		}
		ft = reflect.NewAt(ft.Type(), unsafe.Pointer(ft.UnsafeAddr())).Elem()
		sl := VerifSlot{T: ft.Interface().(time.Time), Live: !ff.IsNil()}
		if sl.Live {
			sl.ID = uintptr(*(*unsafe.Pointer)(unsafe.Pointer(ff.UnsafeAddr())))
		}
		slots = append(slots, sl)
	}
	return slots, true
}
