//go:build verif

// White-box read access to the application PIT/FIB tries of basic.Engine for the C20 harness
// (/verif/harness/c20). Never part of a normal build (tag verif); added to the package through
// `go build -overlay`. Read-only: nothing here changes engine state. None of these functions
// takes a lock; the harness is single-goroutine and never calls them from inside a callback.
package basic

import (
	"sort"
	"time"

	enc "github.com/named-data/ndnd/std/encoding"
)

// VerifPitNode is one PIT trie node. Node / Entries are opaque identities (pointers).
type VerifPitNode struct {
	Path    string
	Node    any
	NChild  int // -1: child map is nil (node was detached by Delete/DeleteIf)
	Entries []any
}

// VerifPitEntry describes one pending-Interest record.
type VerifPitEntry struct {
	CanBePrefix bool
	HasDigest   bool
	Deadline    time.Time
}

// VerifFibNode is one FIB trie node.
type VerifFibNode struct {
	Path       string
	HasHandler bool
	NChild     int
}

func verifEntries(lst pitEntry) []any {
	out := make([]any, 0, len(lst))
	for _, p := range lst {
		out = append(out, p)
	}
	return out
}

func verifWalkPit(n *NameTrie[pitEntry], path string, out *[]VerifPitNode) {
	nc := len(n.chd)
	if n.chd == nil {
		nc = -1
	}
	*out = append(*out, VerifPitNode{Path: path, Node: n, NChild: nc, Entries: verifEntries(n.val)})
	keys := make([]string, 0, len(n.chd))
	for k := range n.chd {
		keys = append(keys, k)
	}
	sort.Strings(keys)
	for _, k := range keys {
		verifWalkPit(n.chd[k], path+"/"+k, out)
	}
}

// VerifPitDump lists every node reachable from the PIT root, parents first, children sorted.
func (e *Engine) VerifPitDump() []VerifPitNode {
	var out []VerifPitNode
	verifWalkPit(e.pit, "", &out)
	return out
}

// VerifPitExact returns the identity of the PIT node for name (nil if there is none).
func (e *Engine) VerifPitExact(name enc.Name) any {
	n := e.pit.ExactMatch(name)
	if n == nil {
		return nil
	}
	return n
}

// VerifPitChain describes node and its ancestors (following parent pointers, which survive
// detaching) up to the root: whether each is still the child registered under its key in its
// parent, its child count and its entries. This is everything Delete/DeleteIf called on a
// (possibly detached) node can read or modify.
func VerifPitChain(node any) []VerifPitNode {
	n, _ := node.(*NameTrie[pitEntry])
	var out []VerifPitNode
	for ; n != nil; n = n.par {
		att := "root"
		if n.par != nil {
			switch {
			case n.par.chd == nil:
				// the parent itself was pruned (Delete/DeleteIf set its child map to nil)
				att = "orphaned:" + n.key
			case n.par.chd[n.key] == n:
				att = "attached:" + n.key
			default:
				// this node was removed from its (still usable) parent
				att = "detached:" + n.key
			}
		}
		nc := len(n.chd)
		if n.chd == nil {
			nc = -1
		}
		out = append(out, VerifPitNode{Path: att, Node: n, NChild: nc, Entries: verifEntries(n.val)})
	}
	return out
}

// VerifPitEntryInfo decodes an entry identity returned by the dumps.
func VerifPitEntryInfo(entry any) VerifPitEntry {
	p := entry.(*pendInt)
	return VerifPitEntry{CanBePrefix: p.canBePrefix, HasDigest: p.impSha256 != nil, Deadline: p.deadline}
}

func verifWalkFib(n *NameTrie[fibEntry], path string, out *[]VerifFibNode) {
	*out = append(*out, VerifFibNode{Path: path, HasHandler: n.val != nil, NChild: len(n.chd)})
	keys := make([]string, 0, len(n.chd))
	for k := range n.chd {
		keys = append(keys, k)
	}
	sort.Strings(keys)
	for _, k := range keys {
		verifWalkFib(n.chd[k], path+"/"+k, out)
	}
}

// VerifFibDump lists every node reachable from the FIB root.
func (e *Engine) VerifFibDump() []VerifFibNode {
	var out []VerifFibNode
	verifWalkFib(e.fib, "", &out)
	return out
}
