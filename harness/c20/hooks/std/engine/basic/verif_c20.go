//go:build verif

// White-box read access to the application PIT/FIB tries of basic.Engine for the C20 harness
// (/verif/harness/c20). Never part of a normal build (tag verif); added to the package through
// `go build -overlay`. Read-only: nothing here changes engine state. None of these functions
// takes a lock; the harness is single-goroutine and never calls them from inside a callback.
package basic

import (
	"fmt"
	"reflect"
	"sort"
	"strings"
	"time"
	"unsafe"

	enc "github.com/named-data/ndnd/std/encoding"
)

// VerifPitNode is one PIT trie node. Node / Entries are opaque identities (pointers).
type VerifPitNode struct {
	Path    string
	Node    any
	NChild  int // -1: child map is nil (node was detached by Delete/DeleteIf)
	Entries []any
}

// VerifPitEntry describes one pending-Interest record. The record's private fields are read by
// NAME through reflection: a field that does not exist (any more) is reported as "<absent>", so a
// refactoring of the record's private state does not stop the harness from building or running.
type VerifPitEntry struct {
	CanBePrefix string // "true" | "false" | "<absent>" (field canBePrefix)
	HasDigest   string // "true" | "false" | "<absent>" (field impSha256 non-empty)
	HasDeadline bool   // field deadline exists and is a time.Time
	Deadline    time.Time
	// Other: every further field of the record, by name, rendered generically (scalars by value,
	// slices/maps by length, pointers/funcs/interfaces as nil or set, structs pointed to field by
	// field one level deep). Names the harness knows nothing about show up here.
	Other string
}

// VerifAbsent is what a dump shows for a private field that does not exist in this tree.
const VerifAbsent = "<absent>"

// VerifFibNode is one FIB trie node.
type VerifFibNode struct {
	Path       string
	HasHandler bool
	NChild     int
}

func verifEntries(lst pitEntry) []any {
	out := make([]any, 0, len(lst))
	for _, p := range lst {
		out = append(out, p)
	}
	return out
}

func verifWalkPit(n *NameTrie[pitEntry], path string, out *[]VerifPitNode) {
	nc := len(n.chd)
	if n.chd == nil {
		nc = -1
	}
	*out = append(*out, VerifPitNode{Path: path, Node: n, NChild: nc, Entries: verifEntries(n.val)})
	keys := make([]string, 0, len(n.chd))
	for k := range n.chd {
		keys = append(keys, k)
	}
	sort.Strings(keys)
	for _, k := range keys {
		verifWalkPit(n.chd[k], path+"/"+k, out)
	}
}

// VerifPitDump lists every node reachable from the PIT root, parents first, children sorted.
func (e *Engine) VerifPitDump() []VerifPitNode {
	var out []VerifPitNode
	verifWalkPit(e.pit, "", &out)
	return out
}

// VerifPitExact returns the identity of the PIT node for name (nil if there is none).
func (e *Engine) VerifPitExact(name enc.Name) any {
	n := e.pit.ExactMatch(name)
	if n == nil {
		return nil
	}
	return n
}

// VerifPitChain describes node and its ancestors (following parent pointers, which survive
// detaching) up to the root: whether each is still the child registered under its key in its
// parent, its child count and its entries. This is everything Delete/DeleteIf called on a
// (possibly detached) node can read or modify.
func VerifPitChain(node any) []VerifPitNode {
	n, _ := node.(*NameTrie[pitEntry])
	var out []VerifPitNode
	for ; n != nil; n = n.par {
		att := "root"
		if n.par != nil {
			switch {
			case n.par.chd == nil:
				// the parent itself was pruned (Delete/DeleteIf set its child map to nil)
				att = "orphaned:" + n.key
			case n.par.chd[n.key] == n:
				att = "attached:" + n.key
			default:
				// this node was removed from its (still usable) parent
				att = "detached:" + n.key
			}
		}
		nc := len(n.chd)
		if n.chd == nil {
			nc = -1
		}
		out = append(out, VerifPitNode{Path: att, Node: n, NChild: nc, Entries: verifEntries(n.val)})
	}
	return out
}

// verifField: the (readable) value of the private field name of the struct p points to; ok=false
// if p is not a pointer to a struct or the struct has no such field.
func verifField(p any, name string) (reflect.Value, bool) {
	v := reflect.ValueOf(p)
	if v.Kind() != reflect.Pointer || v.IsNil() || v.Elem().Kind() != reflect.Struct {
		return reflect.Value{}, false
	}
	f := v.Elem().FieldByName(name)
	if !f.IsValid() {
		return reflect.Value{}, false
	}
	// the struct is addressable (reached through a pointer): lift the read-only flag of private fields
	return reflect.NewAt(f.Type(), unsafe.Pointer(f.UnsafeAddr())).Elem(), true
}

func verifRender(f reflect.Value, deep bool) string {
	switch f.Kind() {
	case reflect.Bool, reflect.Int, reflect.Int8, reflect.Int16, reflect.Int32, reflect.Int64,
		reflect.Uint, reflect.Uint8, reflect.Uint16, reflect.Uint32, reflect.Uint64, reflect.String,
		reflect.Float32, reflect.Float64:
		return fmt.Sprint(f.Interface())
	case reflect.Slice, reflect.Map:
		if f.IsNil() {
			return "nil"
		}
		return fmt.Sprintf("len%d", f.Len())
	case reflect.Func, reflect.Chan, reflect.Interface, reflect.UnsafePointer:
		if f.IsNil() {
			return "nil"
		}
		return "set"
	case reflect.Pointer:
		if f.IsNil() {
			return "nil"
		}
		if deep && f.Elem().Kind() == reflect.Struct {
			return "&" + verifRender(f.Elem(), false)
		}
		if f.Elem().Kind() != reflect.Struct && f.Elem().Kind() != reflect.Pointer {
			return "&" + verifRender(f.Elem(), false)
		}
		return "set"
	case reflect.Struct:
		if t, ok := f.Interface().(time.Time); ok {
			return fmt.Sprint(t.UnixNano())
		}
		var parts []string
		for i := 0; i < f.NumField(); i++ {
			g := f.Field(i)
			if g.CanAddr() {
				g = reflect.NewAt(g.Type(), unsafe.Pointer(g.UnsafeAddr())).Elem()
			} else if !g.CanInterface() {
				parts = append(parts, f.Type().Field(i).Name+"=?")
				continue
			}
			parts = append(parts, f.Type().Field(i).Name+"="+verifRender(g, false))
		}
		return "{" + strings.Join(parts, ",") + "}"
	}
	return f.Kind().String()
}

// VerifPitEntryInfo decodes an entry identity returned by the dumps (see VerifPitEntry).
func VerifPitEntryInfo(entry any) VerifPitEntry {
	out := VerifPitEntry{CanBePrefix: VerifAbsent, HasDigest: VerifAbsent}
	if f, ok := verifField(entry, "canBePrefix"); ok && f.Kind() == reflect.Bool {
		out.CanBePrefix = fmt.Sprint(f.Bool())
	}
	if f, ok := verifField(entry, "impSha256"); ok && f.Kind() == reflect.Slice {
		out.HasDigest = fmt.Sprint(f.Len() > 0)
	}
	if f, ok := verifField(entry, "deadline"); ok {
		if t, ok := f.Interface().(time.Time); ok {
			out.HasDeadline, out.Deadline = true, t
		}
	}
	v := reflect.ValueOf(entry)
	if v.Kind() == reflect.Pointer && !v.IsNil() && v.Elem().Kind() == reflect.Struct {
		var parts []string
		for i := 0; i < v.Elem().NumField(); i++ {
			name := v.Elem().Type().Field(i).Name
			switch name {
			case "canBePrefix", "impSha256", "deadline":
				continue
			}
			f, _ := verifField(entry, name)
			parts = append(parts, name+"="+verifRender(f, true))
		}
		out.Other = strings.Join(parts, ",")
	}
	return out
}

func verifWalkFib(n *NameTrie[fibEntry], path string, out *[]VerifFibNode) {
	*out = append(*out, VerifFibNode{Path: path, HasHandler: n.val != nil, NChild: len(n.chd)})
	keys := make([]string, 0, len(n.chd))
	for k := range n.chd {
		keys = append(keys, k)
	}
	sort.Strings(keys)
	for _, k := range keys {
		verifWalkFib(n.chd[k], path+"/"+k, out)
	}
}

// VerifFibDump lists every node reachable from the FIB root.
func (e *Engine) VerifFibDump() []VerifFibNode {
	var out []VerifFibNode
	verifWalkFib(e.fib, "", &out)
	return out
}

// VerifPitLockState reports whether the engine's PIT lock (private field pitLock, found by name)
// is free right now: "free", "held", or "<absent>" if there is no such field / it has no TryLock.
// The lock is taken and released at once when it is free; nothing else changes.
func (e *Engine) VerifPitLockState() string {
	f, ok := verifField(e, "pitLock")
	if !ok || !f.CanAddr() {
		return VerifAbsent
	}
	l, ok := f.Addr().Interface().(interface {
		TryLock() bool
		Unlock()
	})
	if !ok {
		return VerifAbsent
	}
	if !l.TryLock() {
		return "held"
	}
	l.Unlock()
	return "free"
}
