// C20, component level: the repository's virtual timer (std/engine/dummy.Timer) ALONE, searched
// exhaustively over Schedule / cancel / MoveForward histories against a reference list of pending
// events. This is the timer every engine test of the repository (and the "dummy*" universes here)
// puts under basic.Engine; what the engine needs from it for "every expressed Interest resolves
// exactly once ... or with a timeout" is exactly one thing:
//
//	an event that was scheduled and whose OWN cancel function was never called runs at least once
//	at a moment at which the Interest it belongs to has expired (Now >= its time - TimeoutMargin)
//
// (the timeout function of Express re-reads the clock and sweeps its PIT node, so an event that
// runs early, runs twice, or runs although it was cancelled resolves nothing wrongly: those are
// "may" for this component and are only counted). The clause is evaluated at quiescence (the clock
// moves far ahead three times): the property gives a timeout no upper bound, only "resolves".
//
// Events (universe "dtimer"; delays are lifetime + basic.TimeoutMargin like the ones Express uses):
//
//	S(d)        Schedule(d, f)
//	S(d,re=r)   Schedule(d, f) where f, when it runs, schedules one more event r ms ahead (the
//	            application re-expressing on timeout while MoveForward is still working through its table)
//	C(k)        the cancel function Schedule returned for the k-th event is called (once per event, at
//	            any time: before it is due, when it is due, after it ran; the engine calls it once, when
//	            Data or a Nack resolves the Interest)
//	M(s)        MoveForward(s)
//
// No de-duplication: the table of dummy.Timer and the slot/instant remembered by every cancel
// closure are state no canonical form can be trusted to cover; every history within the depth bound
// is executed. White box (hooks/std/engine/dummy/verif_c20.go, by reflection, optional): the slot
// table, used only to say in the violation key at which kind of event the pending event was lost.
package main

import (
	"fmt"
	"strings"
	"time"

	basic "github.com/named-data/ndnd/std/engine/basic"
	"github.com/named-data/ndnd/std/engine/dummy"
	"verif/mc/explore"
	"verif/mc/report"
)

type tev struct {
	id        int
	at        time.Time // Schedule time + delay
	re        int       // > 0: when it runs it schedules one more (plain) event re ms ahead
	cancel    func() error
	cancelled bool // its own cancel function has been called
	runs      int
	ranOK     bool   // ran at least once at a moment >= at - TimeoutMargin
	lostAt    string // (white box, key only) the kind of event at which its live slot disappeared
	inCb      bool   // scheduled from inside a callback
	fid       uintptr // (white box) identity of its closure in the table, 0 if unknown
}

type tinst struct {
	dm      *dummy.Timer
	evs     []*tev
	hist    []string
	nTop    int // events scheduled by S ops (bounds the alphabet)
	early   int
	twice   int
	afterC  int
	curKind string
	curEv   *tev
	ranNow  int
	nRan    int // events that have run so far
}

type tsys struct {
	name   string
	delays []int
	res    []int
	moves  []int
	maxEv  int
}

func (s *tsys) New() any {
	dm := dummy.NewTimer()
	if dm == nil {
		report.Fatal("dummy.NewTimer returned nil")
	}
	return &tinst{dm: dm}
}

func (s *tsys) Ops(i any) []explore.Op {
	in := i.(*tinst)
	var ops []explore.Op
	add := func(f string, a ...any) { ops = append(ops, explore.Op{Name: fmt.Sprintf(f, a...)}) }
	if in.nTop < s.maxEv {
		for _, d := range s.delays {
			add("S(%d)", d)
			for _, r := range s.res {
				add("S(%d,re=%d)", d, r)
			}
		}
	}
	for _, e := range in.evs {
		if !e.cancelled {
			add("C(%d)", e.id)
		}
	}
	if len(in.evs) > 0 {
		for _, m := range s.moves {
			add("M(%d)", m)
		}
	}
	if _, worker := explore.IsWorker(); !worker {
		add("Quiesce")
	}
	return ops
}

func (in *tinst) schedule(d, re int, inCb bool) {
	e := &tev{id: len(in.evs), at: in.dm.Now().Add(time.Duration(d) * ms), re: re, inCb: inCb}
	in.evs = append(in.evs, e)
	before, okb := in.liveIDs()
	defer func() {
		// the one closure the table holds now and did not hold before is this event's
		if after, ok := in.liveIDs(); ok && okb {
			n := 0
			for id := range after {
				if !before[id] {
					e.fid = id
					n++
				}
			}
			if n != 1 {
				e.fid = 0
			}
		}
	}()
	e.cancel = in.dm.Schedule(time.Duration(d)*ms, func() {
		now := in.dm.Now()
		e.runs++
		in.ranNow++
		in.nRan++
		switch {
		case e.runs > 1:
			in.twice++
		case e.cancelled:
			in.afterC++
		}
		if now.Before(e.at.Add(-basic.TimeoutMargin)) {
			in.early++
		} else {
			e.ranOK = true
		}
		if e.re > 0 && e.runs == 1 {
			in.schedule(e.re, 0, true)
		}
	})
	if e.cancel == nil {
		report.Fatal("dummy.Timer.Schedule returned a nil cancel function")
	}
}

// liveIDs (white box, optional): the closure identities in the live slots of the table.
func (in *tinst) liveIDs() (map[uintptr]bool, bool) {
	slots, ok := in.dm.VerifSlots()
	if !ok {
		return nil, false
	}
	m := map[uintptr]bool{}
	for _, sl := range slots {
		if sl.Live {
			m[sl.ID] = true
		}
	}
	return m, true
}

// track (white box, optional, key only): an event that has not run and whose own cancel was never
// called must still be in a live slot. The first event after which it is not is remembered as the cause.
func (in *tinst) track() {
	live, ok := in.liveIDs()
	if !ok {
		return
	}
	for _, e := range in.evs {
		if e.cancelled || e.runs > 0 || e.lostAt != "" || e.fid == 0 || live[e.fid] {
			continue
		}
		switch in.curKind {
		case "C":
			switch {
			case in.curEv.runs > 0:
				e.lostAt = "at the cancel of a DIFFERENT event that had already run"
			case in.curEv.at.Equal(e.at):
				e.lostAt = "at the cancel of a DIFFERENT pending event with the same expiry instant"
			default:
				e.lostAt = "at the cancel of a DIFFERENT pending event with another expiry instant"
			}
		case "M":
			e.lostAt = "during a MoveForward that did not run it"
			if in.ranNow > 0 {
				e.lostAt += " (other events ran in it)"
			}
		case "S":
			e.lostAt = "when a later event was scheduled"
		}
	}
}

func (s *tsys) step(in *tinst, op string) {
	in.hist = append(in.hist, op)
	in.ranNow = 0
	in.curKind, in.curEv = op[:1], nil
	a := args(op)
	switch in.curKind {
	case "S":
		var d, re int
		fmt.Sscanf(a[0], "%d", &d)
		if len(a) > 1 {
			fmt.Sscanf(a[1], "re=%d", &re)
		}
		in.nTop++
		in.schedule(d, re, false)
	case "C":
		var k int
		fmt.Sscanf(a[0], "%d", &k)
		if k >= len(in.evs) || in.evs[k].cancelled {
			report.Fatal("harness: %s not enabled", op)
		}
		e := in.evs[k]
		in.curEv = e
		e.cancelled = true
		e.cancel() // the error value is not part of the property (the engine ignores it)
	case "M":
		var m int
		fmt.Sscanf(a[0], "%d", &m)
		in.dm.MoveForward(time.Duration(m) * ms)
	default:
		report.Fatal("harness: unknown op %q", op)
	}
	in.track()
}

func (s *tsys) Apply(i any, op explore.Op) []report.Violation {
	in := i.(*tinst)
	if op.Name == "Quiesce" {
		return s.CheckState(in)
	}
	s.step(in, op.Name)
	return nil
}
func (s *tsys) Do(i any, op explore.Op) { s.Apply(i, op) }

// Canon: the history (no de-duplication, see above).
func (s *tsys) Canon(i any) string { return strings.Join(i.(*tinst).hist, ";") }

// CheckState: quiescence. The clock moves an hour ahead three times (an event scheduled by a
// callback during one MoveForward is due in the next at the latest); then every event whose own
// cancel was never called must have run at a moment at which its Interest had expired.
func (s *tsys) CheckState(i any) []report.Violation {
	in := i.(*tinst)
	in.curKind, in.curEv = "M", nil
	for k := 0; k < 3; k++ {
		in.ranNow = 0
		in.dm.MoveForward(time.Hour)
		in.track()
	}
	var v []report.Violation
	seen := map[string]bool{}
	for _, e := range in.evs {
		if e.cancelled || e.ranOK {
			continue
		}
		k := "dummy.Timer: a scheduled event whose own cancel function was never called never runs (the Interest it belongs to never times out)"
		if e.runs > 0 {
			k = "dummy.Timer: a scheduled event whose own cancel function was never called only runs before its Interest has expired, never afterwards (the Interest never times out)"
		}
		if e.lostAt != "" {
			k += "; its slot was lost " + e.lostAt
		}
		if seen[k] {
			continue
		}
		seen[k] = true
		var l []string
		for _, x := range in.evs {
			st := "pending"
			if x.cancelled {
				st = "cancel called"
			}
			l = append(l, fmt.Sprintf("event %d (due %v, %s, ran %d times)", x.id, x.at.Sub(time.Unix(0, 0).UTC()), st, x.runs))
		}
		v = append(v, report.Violation{Clause: "C20.once", Key: k,
			Detail: fmt.Sprintf("dummy.Timer history %v, then MoveForward(1h) three times: event %d was scheduled for %v, its cancel function was never called, it ran %d times; all events: %s. Under basic.Engine this is an expressed Interest whose callback is never invoked.",
				in.hist, e.id, e.at.Sub(time.Unix(0, 0).UTC()), e.runs, strings.Join(l, ", ")),
			Replay: map[string]any{"config": s.name, "ops": append(append([]string{}, in.hist...), "Quiesce")}})
	}
	return v
}

var tconfigs = map[string]tsys{
	// delays = lifetime 10/20 ms + TimeoutMargin; clock steps of 10 ms (land exactly ON an expiry
	// instant before passing it: "due" is strictly before now) and 30 ms (pass several instants at once)
	"dtimer": {delays: []int{20, 30}, res: []int{20}, moves: []int{10, 30}},
}
