// Package report collects violations found by a check, attributes them to the committed
// known-findings file, writes replay artefacts and the evidence file, and produces the
// VIOLATION / KNOWN-FINDING lines and exit code required by the harness contract.
package report

import (
	"bufio"
	"crypto/sha256"
	"encoding/hex"
	"encoding/json"
	"fmt"
	"os"
	"path/filepath"
	"sort"
	"strconv"
	"strings"
	"sync"
	"time"
)

// Root is the /verif directory (overridable for snapshots run by `vp run`).
func Root() string {
	if r := os.Getenv("VERIF_ROOT"); r != "" {
		return r
	}
	return "/verif"
}

// Violation is one counterexample.
type Violation struct {
	Clause string `json:"clause"` // e.g. "C05.lpm"
	Key    string `json:"key"`    // canonical, stable identification of the minimal counterexample / root cause
	Detail string `json:"detail"` // human readable: expected vs got
	Replay any    `json:"replay"` // what is needed to re-execute it (op list, input bytes, schedule)
}

// Finding is a line of known_findings.jsonl.
type Finding struct {
	Property string `json:"property"`
	Clause   string `json:"clause"`
	Key      string `json:"key"`
	Status   string `json:"status"` // "known" | "fixed"
	Commit   string `json:"commit,omitempty"`
	What     string `json:"what"`
}

type Reporter struct {
	mu        sync.Mutex
	ID        string
	Tier      string
	Seed      int64
	Level     string
	start     time.Time
	viol      map[string]*Violation // clause|key -> first seen
	order     []string
	dupes     map[string]int
	perClause map[string]int
	Cap       int // max distinct keys kept per clause
	capped    bool
}

func New(id, level string) *Reporter {
	tier := os.Getenv("VERIF_TIER")
	if tier != "thorough" {
		tier = "quick"
	}
	seed, _ := strconv.ParseInt(os.Getenv("VERIF_SEED"), 10, 64)
	return &Reporter{ID: id, Tier: tier, Seed: seed, Level: level, start: time.Now(),
		viol: map[string]*Violation{}, dupes: map[string]int{}, perClause: map[string]int{}, Cap: 20}
}

func (r *Reporter) Thorough() bool { return r.Tier == "thorough" }

// Add records a violation (deduplicated by clause+key).
func (r *Reporter) Add(v Violation) {
	r.mu.Lock()
	defer r.mu.Unlock()
	k := v.Clause + "|" + v.Key
	if _, ok := r.viol[k]; ok {
		r.dupes[k]++
		return
	}
	if r.perClause[v.Clause] >= r.Cap {
		r.capped = true
		return
	}
	r.perClause[v.Clause]++
	vv := v
	r.viol[k] = &vv
	r.order = append(r.order, k)
}

func (r *Reporter) Count() int { r.mu.Lock(); defer r.mu.Unlock(); return len(r.viol) }

func loadFindings() []Finding {
	f, err := os.Open(filepath.Join(Root(), "known_findings.jsonl"))
	if err != nil {
		return nil
	}
	defer f.Close()
	var out []Finding
	sc := bufio.NewScanner(f)
	sc.Buffer(make([]byte, 1<<20), 1<<24)
	for sc.Scan() {
		line := strings.TrimSpace(sc.Text())
		if line == "" || strings.HasPrefix(line, "#") {
			continue
		}
		var fd Finding
		if json.Unmarshal([]byte(line), &fd) == nil {
			out = append(out, fd)
		}
	}
	return out
}

// OutRoot is where evidence and replays are written (VERIF_OUT overrides; used when a check is
// run against a scratch copy of the repository so that /verif/evidence is left alone).
func OutRoot() string {
	if r := os.Getenv("VERIF_OUT"); r != "" {
		return r
	}
	return Root()
}

// Coverage is the free-form coverage object of the evidence file.
type Coverage map[string]any

// Finish writes replays and evidence, prints the contract lines and exits.
func (r *Reporter) Finish(cov Coverage, assumptions []string) {
	code := r.FinishNoExit(cov, assumptions)
	os.Exit(code)
}

func (r *Reporter) FinishNoExit(cov Coverage, assumptions []string) int {
	r.mu.Lock()
	defer r.mu.Unlock()
	known := map[string]Finding{}
	for _, f := range loadFindings() {
		if f.Property == r.ID && f.Status == "known" {
			known[f.Clause+"|"+f.Key] = f
		}
	}
	sort.Strings(r.order)
	nViol, nKnown := 0, 0
	root := OutRoot()
	for _, k := range r.order {
		v := r.viol[k]
		if f, ok := known[k]; ok {
			nKnown++
			fmt.Printf("KNOWN-FINDING: property=%s clause=%s %s\n", r.ID, v.Clause, f.What)
			continue
		}
		nViol++
		h := sha256.Sum256([]byte(k))
		dir := filepath.Join(root, "replays", r.ID)
		os.MkdirAll(dir, 0o755)
		path := filepath.Join(dir, strings.ReplaceAll(v.Clause, ".", "_")+"-"+hex.EncodeToString(h[:6])+".json")
		b, _ := json.MarshalIndent(map[string]any{"property": r.ID, "clause": v.Clause, "key": v.Key,
			"detail": v.Detail, "replay": v.Replay, "duplicates": r.dupes[k]}, "", " ")
		os.WriteFile(path, b, 0o644)
		fmt.Printf("VIOLATION property=%s replay=%s clause=%s key=%q :: %s\n", r.ID, path, v.Clause, v.Key, oneLine(v.Detail, 400))
	}
	if cov == nil {
		cov = Coverage{}
	}
	cov["known_findings_reproduced"] = nKnown
	if r.capped {
		cov["violation_key_cap_hit"] = true
	}
	ev := map[string]any{
		"property_id": r.ID, "tier": r.Tier, "seed": r.Seed, "level": r.Level,
		"coverage": cov, "assumptions": assumptions,
		"wall_s": float64(int(time.Since(r.start).Seconds()*100)) / 100, "violations": nViol,
	}
	if assumptions == nil {
		ev["assumptions"] = []string{}
	}
	b, _ := json.MarshalIndent(ev, "", " ")
	os.MkdirAll(filepath.Join(root, "evidence"), 0o755)
	if err := os.WriteFile(filepath.Join(root, "evidence", r.ID+".json"), append(b, '\n'), 0o644); err != nil {
		fmt.Printf("CHECK-ERROR: cannot write evidence: %v\n", err)
		return 2
	}
	fmt.Printf("RESULT property=%s tier=%s violations=%d known=%d wall_s=%.1f\n", r.ID, r.Tier, nViol, nKnown, time.Since(r.start).Seconds())
	if nViol > 0 {
		return 1
	}
	return 0
}

func oneLine(s string, n int) string {
	s = strings.ReplaceAll(s, "\n", " / ")
	if len(s) > n {
		s = s[:n] + "…"
	}
	return s
}

// Samples keeps the first n distinct strings offered (for coverage.samples).
type Samples struct {
	mu  sync.Mutex
	N   int
	lst []string
	set map[string]bool
}

func (s *Samples) Offer(x string) {
	s.mu.Lock()
	defer s.mu.Unlock()
	if s.N == 0 {
		s.N = 8
	}
	if len(s.lst) >= s.N {
		return
	}
	if s.set == nil {
		s.set = map[string]bool{}
	}
	if s.set[x] {
		return
	}
	s.set[x] = true
	s.lst = append(s.lst, x)
}
func (s *Samples) List() []string {
	s.mu.Lock()
	defer s.mu.Unlock()
	return append([]string{}, s.lst...)
}

// Fatal reports a broken check (never a violation) and exits 2.
func Fatal(format string, a ...any) {
	fmt.Printf("CHECK-ERROR: "+format+"\n", a...)
	os.Exit(2)
}
