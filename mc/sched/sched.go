// Package sched is a controlled cooperative scheduler plus a stateless depth-first search over
// thread interleavings with iterative preemption bounding (CHESS style), for real Go code whose
// sync operations were redirected to verif/shim/vsync by the check-time source overlay.
//
// Threads are real goroutines, but exactly one runs at any time: every hooked operation calls
// Point(), which hands the baton back to the explorer; the explorer picks the next thread from the
// enabled set according to the current choice sequence. Executions always run to completion.
// "No enabled thread while some thread is unfinished" is a deadlock; a step horizon guards
// against livelock. Unsynchronised accesses are invisible to this scheduler (hand-offs are
// happens-before edges); they are covered by a separate free-running -race pass of the same bodies.
package sched

import (
	"fmt"
	"runtime"
	"runtime/debug"
	"strings"
	"time"
)

// ---- runtime side (one execution) ----

type thread struct {
	id       int
	resume   chan struct{}
	done     bool
	blocked  any // object the thread waits for (nil = runnable)
	started  bool
	body     func(*Ctx)
	lastSite string
}

type event struct {
	t     *thread
	kind  int // 0 = at point, 1 = finished, 2 = panicked
	panic string
}

// Exec is one controlled execution.
type Exec struct {
	threads []*thread
	cur     *thread
	yield   chan event
	abort   bool
	Step    int
	Hist    []OpRec
	Crash   string
	Dead    bool // deadlock
	Live    bool // horizon hit
	points  []pointRec
	choices []int
}

type pointRec struct {
	enabled        []int // thread ids in canonical order: running thread first (if enabled), then ascending
	runningEnabled bool
	sites          []string // for each enabled thread, where it is parked
	preemptions    int      // preemptions used BEFORE this point
}

// OpRec is one API call of a thread as seen by the harness (for linearizability checking).
type OpRec struct {
	Thread int
	Op     string
	Inv    int // step counter at invocation
	Resp   int // step counter at response
	Result string
}

// Ctx is handed to thread bodies.
type Ctx struct {
	e *Exec
	t *thread
}

var active *Exec // the execution in progress (shims reach it through here)

// Active reports whether a controlled execution is in progress on the calling thread's behalf.
func Active() bool { return active != nil && !active.abort }

type abortSentinel struct{}

// Point is a scheduling point: called by shims before each visible operation.
func Point() {
	e := active
	if e == nil {
		return
	}
	if e.abort {
		panic(abortSentinel{})
	}
	t := e.cur
	t.lastSite = callSite()
	e.yield <- event{t: t}
	<-t.resume
	if e.abort {
		panic(abortSentinel{})
	}
}

// Block parks the current thread until Wake(obj) is called. The caller re-checks its condition
// in a loop (for !cond { Block(obj) }).
func Block(obj any) {
	e := active
	if e == nil {
		panic("vsync: blocking operation outside a controlled execution would deadlock")
	}
	if e.abort {
		panic(abortSentinel{})
	}
	t := e.cur
	t.blocked = obj
	t.lastSite = callSite()
	e.yield <- event{t: t}
	<-t.resume
	if e.abort {
		panic(abortSentinel{})
	}
}

// Wake makes every thread blocked on obj runnable again.
func Wake(obj any) {
	e := active
	if e == nil {
		return
	}
	for _, t := range e.threads {
		if t.blocked == obj {
			t.blocked = nil
		}
	}
}

func callSite() string {
	pcs := make([]uintptr, 24)
	n := runtime.Callers(3, pcs)
	frames := runtime.CallersFrames(pcs[:n])
	for {
		f, more := frames.Next()
		if strings.HasPrefix(f.Function, "github.com/named-data/ndnd/") {
			fn := strings.TrimPrefix(f.Function, "github.com/named-data/ndnd/")
			return fn
		}
		if !more {
			break
		}
	}
	return "?"
}

// Begin/End bracket one API call in the recorded history.
func (c *Ctx) Begin(op string) int {
	c.e.Hist = append(c.e.Hist, OpRec{Thread: c.t.id, Op: op, Inv: c.e.Step, Resp: -1})
	return len(c.e.Hist) - 1
}
func (c *Ctx) End(id int, result string) {
	c.e.Hist[id].Resp = c.e.Step
	c.e.Hist[id].Result = result
}

// Yield is an explicit scheduling point in a harness body (e.g. between obtaining a lookup
// result and consuming it).
func (c *Ctx) Yield() { Point() }

func (e *Exec) startThread(t *thread) {
	t.started = true
	go func() {
		<-t.resume
		defer func() {
			if r := recover(); r != nil {
				if _, ok := r.(abortSentinel); ok {
					t.done = true
					e.yield <- event{t: t, kind: 1}
					return
				}
				t.done = true
				e.yield <- event{t: t, kind: 2, panic: fmt.Sprintf("%v @ %s", r, firstRepoFrame(string(debug.Stack())))}
				return
			}
			t.done = true
			e.yield <- event{t: t, kind: 1}
		}()
		if e.abort {
			panic(abortSentinel{})
		}
		t.body(&Ctx{e: e, t: t})
	}()
}

func firstRepoFrame(st string) string {
	for _, l := range strings.Split(st, "\n") {
		if strings.HasPrefix(l, "github.com/named-data/ndnd/") {
			if i := strings.LastIndex(l, "("); i > 0 {
				l = l[:i]
			}
			return strings.TrimPrefix(l, "github.com/named-data/ndnd/")
		}
	}
	return "?"
}

// run executes the bodies under the choice prefix (then default choice 0 everywhere).
func run(bodies []func(*Ctx), prefix []int, horizon int) (*Exec, error) {
	e := &Exec{yield: make(chan event)}
	for i, b := range bodies {
		e.threads = append(e.threads, &thread{id: i, resume: make(chan struct{}), body: b})
	}
	active = e
	defer func() { active = nil }()
	for _, t := range e.threads {
		e.startThread(t)
	}
	preempt := 0
	var running *thread
	for {
		// enabled set in canonical order
		var en []*thread
		runningEnabled := running != nil && !running.done && running.blocked == nil
		if runningEnabled {
			en = append(en, running)
		}
		for _, t := range e.threads {
			if t != running && !t.done && t.blocked == nil {
				en = append(en, t)
			}
		}
		if len(en) == 0 {
			unfinished := false
			for _, t := range e.threads {
				if !t.done {
					unfinished = true
				}
			}
			if unfinished {
				e.Dead = true
			}
			break
		}
		if e.Step >= horizon {
			e.Live = true
			break
		}
		choice := 0
		if len(e.points) < len(prefix) {
			choice = prefix[len(e.points)]
			if choice < 0 || choice >= len(en) {
				e.cleanup()
				return nil, fmt.Errorf("replay divergence: choice %d of %d at point %d", choice, len(en), len(e.points))
			}
		}
		pr := pointRec{runningEnabled: runningEnabled, preemptions: preempt}
		for _, t := range en {
			pr.enabled = append(pr.enabled, t.id)
			pr.sites = append(pr.sites, t.lastSite)
		}
		e.points = append(e.points, pr)
		e.choices = append(e.choices, choice)
		if runningEnabled && choice != 0 {
			preempt++
		}
		next := en[choice]
		running = next
		e.cur = next
		e.Step++
		next.resume <- struct{}{}
		ev := <-e.yield
		if ev.kind == 2 {
			e.Crash = ev.panic
			break
		}
	}
	e.cleanup()
	return e, nil
}

// cleanup unblocks every unfinished thread so that its goroutine exits.
func (e *Exec) cleanup() {
	e.abort = true
	for _, t := range e.threads {
		for !t.done {
			e.cur = t
			t.resume <- struct{}{}
			ev := <-e.yield
			_ = ev
		}
	}
}

// ---- explorer side ----

// Scenario is a closed concurrent test: fresh state, a few thread bodies, a check.
type Scenario struct {
	Name    string
	Setup   func() any
	Threads func(st any) []func(*Ctx)
	// Check inspects one complete execution; it returns violations as (clause, key, detail).
	Check func(st any, e *Exec) []Finding
}

type Finding struct{ Clause, Key, Detail string }

type Stats struct {
	Scenario         string   `json:"scenario"`
	Executions       int      `json:"executions"`
	Points           int      `json:"scheduling_points"`
	MaxSteps         int      `json:"max_steps"`
	Bound            int      `json:"preemption_bound_completed"`
	Complete         bool     `json:"complete_within_bound"`
	Outcomes         int      `json:"distinct_outcomes"`
	DoubleRuns       int      `json:"determinism_double_runs"`
	DoubleRunsDiffer int      `json:"double_runs_that_differed_map_order"`
	CapHit           string   `json:"cap_hit,omitempty"`
	SampleSched      []string `json:"-"`
}

type Found struct {
	Finding
	Schedule []int
	Trace    []string
}

// Explore enumerates all schedules of scn with at most `bound` preemptions (iteratively 0..bound).
// onFound is called for each finding (with the schedule that produced it).
func Explore(scn Scenario, bound int, deadline time.Time, onFound func(Found)) (Stats, error) {
	st := Stats{Scenario: scn.Name, Bound: -1}
	outcomes := map[string]bool{}
	const horizon = 20000
	var runOne func(prefix []int) (*Exec, any, error)
	runOne = func(prefix []int) (*Exec, any, error) {
		state := scn.Setup()
		e, err := run(scn.Threads(state), prefix, horizon)
		return e, state, err
	}
	timedOut := false
	for b := 0; b <= bound && !timedOut; b++ {
		// DFS over schedules with exactly <= b preemptions; to avoid re-running schedules of lower
		// bounds we only *count/check* executions whose total preemptions == b (or b == 0).
		var rec func(prefix []int) error
		rec = func(prefix []int) error {
			if !deadline.IsZero() && time.Now().After(deadline) {
				timedOut = true
				return nil
			}
			e, state, err := runOne(prefix)
			if err != nil {
				return err
			}
			total := 0
			if n := len(e.points); n > 0 {
				total = e.points[n-1].preemptions
				if e.points[n-1].runningEnabled && e.choices[n-1] != 0 {
					total++
				}
			}
			if total == b {
				st.Executions++
				st.Points += len(e.points)
				if e.Step > st.MaxSteps {
					st.MaxSteps = e.Step
				}
				if st.DoubleRuns < 100 {
					// determinism: the same schedule is run twice. The scheduler owns every sync
					// operation, so a difference can only come from nondeterminism inside the code
					// under test (Go map iteration order). It is counted, not fatal: both runs are
					// real executions and both are checked.
					e2, state2, err := runOne(e.choices)
					if err != nil {
						return err
					}
					if fmt.Sprint(e2.Hist, e2.Crash, e2.Dead) != fmt.Sprint(e.Hist, e.Crash, e.Dead) {
						st.DoubleRunsDiffer++
						if e2.Crash == "" && !e2.Dead && !e2.Live {
							for _, f := range scn.Check(state2, e2) {
								onFound(Found{Finding: f, Schedule: append([]int{}, e2.choices...), Trace: e2.trace()})
							}
						}
						// restore the tables of the first run for its own check
						state = scn.Setup()
						e, err = run(scn.Threads(state), e.choices, horizon)
						if err != nil {
							return err
						}
					}
					st.DoubleRuns++
				}
				var fs []Finding
				if e.Crash != "" {
					fs = append(fs, Finding{"crash", "panic " + e.Crash, "panic: " + e.Crash})
				}
				if e.Dead {
					fs = append(fs, Finding{"deadlock", "deadlock", "no enabled thread while threads unfinished: " + strings.Join(e.trace(), " | ")})
				}
				if e.Live {
					fs = append(fs, Finding{"deadlock", "livelock (step horizon)", "step horizon reached"})
				}
				if e.Crash == "" && !e.Dead && !e.Live {
					fs = append(fs, scn.Check(state, e)...)
				}
				outcomes[histKey(e.Hist)] = true
				if len(st.SampleSched) < 4 && total > 0 {
					st.SampleSched = append(st.SampleSched, fmt.Sprintf("%s: schedule=%v trace=%v", scn.Name, e.choices, e.trace()))
				}
				for _, f := range fs {
					onFound(Found{Finding: f, Schedule: append([]int{}, e.choices...), Trace: e.trace()})
				}
			}
			for i := len(prefix); i < len(e.points); i++ {
				p := e.points[i]
				for alt := 1; alt < len(p.enabled); alt++ {
					cost := p.preemptions
					if p.runningEnabled {
						cost++
					}
					if cost > b {
						continue
					}
					np := append(append([]int{}, e.choices[:i]...), alt)
					if err := rec(np); err != nil {
						return err
					}
					if timedOut {
						return nil
					}
				}
			}
			return nil
		}
		if err := rec(nil); err != nil {
			return st, err
		}
		if !timedOut {
			st.Bound = b
		}
	}
	st.Complete = !timedOut
	if timedOut {
		st.CapHit = fmt.Sprintf("deadline while exploring preemption bound %d", st.Bound+1)
	}
	st.Outcomes = len(outcomes)
	return st, nil
}

// trace renders the schedule as the sequence of (thread, site) steps.
func (e *Exec) trace() []string {
	var out []string
	for i, p := range e.points {
		c := e.choices[i]
		out = append(out, fmt.Sprintf("T%d@%s", p.enabled[c], p.sites[c]))
	}
	return out
}

// Replay runs one schedule and returns the execution and state.
func Replay(scn Scenario, schedule []int) (*Exec, any, error) {
	state := scn.Setup()
	e, err := run(scn.Threads(state), schedule, 20000)
	return e, state, err
}

// histKey identifies an observed outcome: per-thread op results, without step numbers.
func histKey(h []OpRec) string {
	var b strings.Builder
	for _, r := range h {
		fmt.Fprintf(&b, "%d:%s=%s;", r.Thread, r.Op, r.Result)
	}
	return b.String()
}
