package explore

import (
	"encoding/json"
	"fmt"
	"os"
	"time"

	"verif/mc/report"
)

// Spec describes a whole check made of one or more explored configurations.
type Spec struct {
	ID          string
	PanicClause string
	Build       func(cfgName string) System
	Configs     func(thorough bool) []Config // bounds per tier
	Budget      func(thorough bool) time.Duration
	Assumptions []string
	Rule        string
	Extra       func(rep *report.Reporter, cov report.Coverage) // optional extra passes run in the parent
}

// Main is the entry point of an explicit-state harness binary.
func Main(spec Spec) {
	if name, ok := IsWorker(); ok {
		WorkerMain(spec.Build(name), spec.PanicClause)
		return
	}
	if len(os.Args) >= 3 && os.Args[1] == "--replay" {
		os.Exit(replayFile(spec, os.Args[2]))
	}
	rep := report.New(spec.ID, "model_checking")
	cfgs := spec.Configs(rep.Thorough())
	budget := spec.Budget(rep.Thorough())
	start := time.Now()
	var results []Result
	states, trans, verified := 0, 0, 0
	exhaustive := true
	var samples []string
	for i, c := range cfgs {
		// share the remaining budget evenly over the remaining configurations
		remaining := budget - time.Since(start)
		share := remaining / time.Duration(len(cfgs)-i)
		if share < 2*time.Second {
			share = 2 * time.Second
		}
		c.Deadline = time.Now().Add(share)
		if c.PanicClause == "" {
			c.PanicClause = spec.PanicClause
		}
		r := Run(c, rep)
		fmt.Printf("config %-28s states=%-8d transitions=%-9d depth=%d fixpoint=%v cap=%q\n", c.Name, r.States, r.Transitions, r.DepthDone, r.Fixpoint, r.CapHit)
		results = append(results, r)
		states += r.States
		trans += r.Transitions
		verified += r.ReplaysChecked
		if !r.Exhaustive {
			exhaustive = false
		}
		if len(samples) < 8 {
			for _, s := range r.Samples {
				if len(samples) < 8 {
					samples = append(samples, s)
				}
			}
		}
	}
	if len(samples) == 0 {
		samples = []string{"(no multi-step history sampled)"}
	}
	cov := report.Coverage{
		"states": states, "transitions": trans,
		"traces_validated_against_impl": trans,
		"samples":                       samples,
		"exhaustive":                    exhaustive,
		"rule":                          spec.Rule,
		"configs":                       results,
		"determinism_double_runs":       verified,
		"explanation":                   "every transition is an execution of the real implementation (fresh instance + replay of the shortest history + one operation), so every explored trace is validated against the implementation by construction; exhaustive=true means every configuration reached its depth bound or a fixpoint without hitting a time/state cap",
	}
	if spec.Extra != nil {
		spec.Extra(rep, cov)
	}
	rep.Finish(cov, spec.Assumptions)
}

func replayFile(spec Spec, path string) int {
	b, err := os.ReadFile(path)
	if err != nil {
		fmt.Println("CHECK-ERROR:", err)
		return 2
	}
	var f struct {
		Clause string `json:"clause"`
		Replay struct {
			Config string   `json:"config"`
			Ops    []string `json:"ops"`
		} `json:"replay"`
	}
	if err := json.Unmarshal(b, &f); err != nil {
		fmt.Println("CHECK-ERROR:", err)
		return 2
	}
	sys := spec.Build(f.Replay.Config)
	v, err := ReplayOps(sys, f.Replay.Ops, spec.PanicClause)
	if err != nil {
		fmt.Println("CHECK-ERROR:", err)
		return 2
	}
	hit := 0
	for _, x := range v {
		fmt.Printf("replayed: clause=%s %s\n", x.Clause, x.Detail)
		if x.Clause == f.Clause {
			hit++
		}
	}
	if hit > 0 {
		fmt.Printf("VIOLATION property=%s replay=%s\n", spec.ID, path)
		return 1
	}
	fmt.Println("replay: violation not reproduced")
	return 0
}
