// Package explore is an explicit-state breadth-first model checker whose transition function is
// the real implementation: a state is identified by the operation history that reaches it, a
// successor is computed by building a fresh instance, replaying the history and applying one more
// operation. States are de-duplicated on a canonical form supplied by the harness. Work is
// sharded over worker processes (the harness binary re-executed in worker mode) because the code
// under test keeps process-global state.
package explore

import (
	"bufio"
	"crypto/sha256"
	"encoding/json"
	"fmt"
	"os"
	"os/exec"
	"runtime"
	"runtime/debug"
	"strconv"
	"strings"
	"sync"
	"time"

	"verif/mc/report"
)

// Op is one element of the alphabet. Name must identify it completely (it is what replays store).
type Op struct {
	Name string
	Dev  bool // counts against the deviation bound
}

// System is what a harness implements.
type System interface {
	New() any                                 // fresh real objects (+ reference model)
	Ops(inst any) []Op                        // enabled operations, deterministic order, simplest first
	Apply(inst any, op Op) []report.Violation // run the real code for op and check the oracle
	Canon(inst any) string                    // canonical state; equal canon => equal futures
}

// Replayer is optional: apply op without evaluating the oracle (used while replaying a history
// whose transitions were already checked when they were first explored).
type Replayer interface {
	Do(inst any, op Op)
}

// StateChecker is optional: a check run on every successor state after Canon was taken
// (it may destroy the instance, e.g. quiescence closure).
type StateChecker interface {
	CheckState(inst any) []report.Violation
}

type Config struct {
	BuildName   string // name handed to Spec.Build in the workers (default: Name)
	Name        string
	MaxDepth    int
	MaxDev      int // -1: deviations unbounded
	MaxStates   int
	Deadline    time.Time
	Workers     int
	PanicClause string
	// ExpandViolating: by default a state reached by a violating transition is not expanded
	// (its futures would re-report the same root cause under ever longer histories).
	ExpandViolating bool
	// NoDedup disables canonical-state de-duplication (every history is expanded): an audit of
	// the canonical form. Equal canon is claimed to imply equal futures; a canon that forgets a
	// piece of private state silently hides bugs, a search without it does not.
	NoDedup bool
}

type Result struct {
	Config            string   `json:"config"`
	States            int      `json:"states"`
	Transitions       int      `json:"transitions"`
	DepthDone         int      `json:"depth_completed"`
	Fixpoint          bool     `json:"fixpoint"`
	Exhaustive        bool     `json:"exhaustive_within_bound"`
	CapHit            string   `json:"cap_hit,omitempty"`
	LevelSizes        []int    `json:"level_sizes"`
	Samples           []string `json:"-"`
	ReplaysChecked    int      `json:"determinism_replays"`
	PrunedViolating   int      `json:"violating_states_not_expanded"`
	NondetTransitions int      `json:"double_runs_that_differed"`
	NondetSamples     []string `json:"double_runs_that_differed_samples,omitempty"`
}

type succ struct {
	I    int                `json:"i"`
	Op   string             `json:"op"`
	Dev  bool               `json:"dev"`
	C    string             `json:"c"`
	V    []report.Violation `json:"v,omitempty"`
	Dead bool               `json:"dead,omitempty"`
}
type req struct {
	H      []int `json:"h"`
	DevOK  bool  `json:"devok"`
	Verify bool  `json:"verify"`
}
type resp struct {
	Names  []string `json:"names"`
	Succ   []succ   `json:"succ"`
	Err    string   `json:"err,omitempty"`
	Nondet []string `json:"nondet,omitempty"`
}

const workerEnv = "VERIF_EXPLORE_WORKER"

// IsWorker reports whether this process was started as a worker and for which config.
func IsWorker() (string, bool) {
	v, ok := os.LookupEnv(workerEnv)
	return v, ok
}

func hashCanon(s string) string {
	h := sha256.Sum256([]byte(s))
	return string(h[:12])
}

func replay(sys System, h []int) (inst any, names []string, err error) {
	inst = sys.New()
	for _, i := range h {
		ops := sys.Ops(inst)
		if i < 0 || i >= len(ops) {
			return nil, nil, fmt.Errorf("replay divergence: op index %d out of range %d after %v", i, len(ops), names)
		}
		names = append(names, ops[i].Name)
		if rp, ok := sys.(Replayer); ok {
			rp.Do(inst, ops[i])
		} else {
			sys.Apply(inst, ops[i])
		}
	}
	return inst, names, nil
}

func topFrames() string {
	st := string(debug.Stack())
	var out []string
	for _, l := range strings.Split(st, "\n") {
		if strings.HasPrefix(l, "github.com/named-data/ndnd/") {
			f := l
			if i := strings.LastIndex(f, "("); i > 0 {
				f = f[:i]
			}
			out = append(out, strings.TrimPrefix(f, "github.com/named-data/ndnd/"))
			if len(out) >= 3 {
				break
			}
		}
	}
	return strings.Join(out, " < ")
}

func applyGuard(sys System, inst any, op Op, panicClause string) (v []report.Violation, dead bool) {
	defer func() {
		if r := recover(); r != nil {
			fr := topFrames()
			dead = true
			v = append(v, report.Violation{Clause: panicClause, Key: fmt.Sprintf("panic %v @ %s", r, fr),
				Detail: fmt.Sprintf("panic: %v at %s during %s", r, fr, op.Name)})
		}
	}()
	v = sys.Apply(inst, op)
	return
}

// WorkerMain serves requests on fd 3 (in) / fd 4 (out) until EOF.
func WorkerMain(sys System, panicClause string) {
	in := bufio.NewReaderSize(os.NewFile(3, "req"), 1<<20)
	out := bufio.NewWriterSize(os.NewFile(4, "resp"), 1<<20)
	dec := json.NewDecoder(in)
	enc := json.NewEncoder(out)
	sc, _ := sys.(StateChecker)
	for {
		var rq req
		if err := dec.Decode(&rq); err != nil {
			return
		}
		var rs resp
		func() {
			defer func() {
				if r := recover(); r != nil {
					rs.Err = fmt.Sprintf("worker panic outside Apply: %v\n%s", r, debug.Stack())
				}
			}()
			inst, names, err := replay(sys, rq.H)
			if err != nil {
				rs.Err = err.Error()
				return
			}
			rs.Names = names
			ops := sys.Ops(inst)
			for i, op := range ops {
				if op.Dev && !rq.DevOK {
					continue
				}
				one := func() succ {
					in2, _, err := replay(sys, rq.H)
					if err != nil {
						return succ{I: i, Op: op.Name, C: "ERR:" + err.Error()}
					}
					v, dead := applyGuard(sys, in2, op, panicClause)
					s := succ{I: i, Op: op.Name, Dev: op.Dev, V: v, Dead: dead}
					if !dead {
						s.C = hashCanon(sys.Canon(in2))
						if sc != nil {
							func() {
								defer func() {
									if r := recover(); r != nil {
										s.V = append(s.V, report.Violation{Clause: panicClause, Key: fmt.Sprintf("panic %v @ %s (state check)", r, topFrames()), Detail: fmt.Sprintf("panic in state check: %v", r)})
									}
								}()
								s.V = append(s.V, sc.CheckState(in2)...)
							}()
						}
					}
					return s
				}
				s := one()
				if strings.HasPrefix(s.C, "ERR:") {
					rs.Err = s.C
					return
				}
				if rq.Verify {
					s2 := one()
					if s2.C != s.C || len(s2.V) != len(s.V) {
						// The harness owns clock, randomness and scheduling; what remains is Go map
						// iteration order inside the code under test. Not fatal: both executions are
						// real executions, violations found in either are reported.
						rs.Nondet = append(rs.Nondet, fmt.Sprintf("%v ; %s", names, op.Name))
						s.V = append(s.V, s2.V...)
					}
				}
				rs.Succ = append(rs.Succ, s)
			}
		}()
		if err := enc.Encode(&rs); err != nil {
			return
		}
		out.Flush()
	}
}

type worker struct {
	cmd *exec.Cmd
	enc *json.Encoder
	w   *bufio.Writer
	dec *json.Decoder
}

func startWorker(cfgName string) (*worker, error) {
	cmd := exec.Command(os.Args[0], os.Args[1:]...)
	cmd.Env = append(os.Environ(), workerEnv+"="+cfgName, "GOMAXPROCS=1")
	cmd.Stderr = os.Stderr
	cmd.Stdout = os.Stderr
	pr1, pw1, _ := os.Pipe() // parent -> worker
	pr2, pw2, _ := os.Pipe() // worker -> parent
	cmd.ExtraFiles = []*os.File{pr1, pw2}
	if err := cmd.Start(); err != nil {
		return nil, err
	}
	pr1.Close()
	pw2.Close()
	w := bufio.NewWriterSize(pw1, 1<<20)
	wk := &worker{cmd: cmd, w: w, enc: json.NewEncoder(w), dec: json.NewDecoder(bufio.NewReaderSize(pr2, 1<<20))}
	go func() { cmd.Wait() }()
	return wk, nil
}

func (w *worker) call(rq req) (resp, error) {
	var rs resp
	if err := w.enc.Encode(&rq); err != nil {
		return rs, err
	}
	if err := w.w.Flush(); err != nil {
		return rs, err
	}
	if err := w.dec.Decode(&rs); err != nil {
		return rs, fmt.Errorf("worker died: %v", err)
	}
	return rs, nil
}

type item struct {
	h   []int
	dev int
}

// Run explores one configuration from the parent process.
func Run(cfg Config, rep *report.Reporter) Result {
	if cfg.Workers <= 0 {
		cfg.Workers = runtime.NumCPU()
		if v, err := strconv.Atoi(os.Getenv("VERIF_WORKERS")); err == nil && v > 0 {
			cfg.Workers = v
		}
	}
	res := Result{Config: cfg.Name}
	workers := make([]*worker, 0, cfg.Workers)
	for i := 0; i < cfg.Workers; i++ {
		bn := cfg.BuildName
		if bn == "" {
			bn = cfg.Name
		}
		w, err := startWorker(bn)
		if err != nil {
			report.Fatal("cannot start worker: %v", err)
		}
		workers = append(workers, w)
	}
	defer func() {
		for _, w := range workers {
			w.w.Flush()
			w.cmd.Process.Kill()
		}
	}()

	// root
	rootResp, err := workers[0].call(req{H: nil, DevOK: false, Verify: false})
	_ = rootResp
	if err != nil {
		report.Fatal("%v", err)
	}
	visited := map[string]int{} // canon -> min deviations used
	frontier := []item{{h: nil, dev: 0}}
	visited["ROOT"] = 0
	res.States = 1
	verifyBudget := 200
	for depth := 0; depth < cfg.MaxDepth && len(frontier) > 0; depth++ {
		res.LevelSizes = append(res.LevelSizes, len(frontier))
		results := make([]resp, len(frontier))
		errs := make([]error, len(frontier))
		var wg sync.WaitGroup
		var mu sync.Mutex
		next := 0
		timedOut := false
		for _, w := range workers {
			wg.Add(1)
			go func(w *worker) {
				defer wg.Done()
				for {
					mu.Lock()
					if next >= len(frontier) || timedOut {
						mu.Unlock()
						return
					}
					if !cfg.Deadline.IsZero() && time.Now().After(cfg.Deadline) {
						timedOut = true
						mu.Unlock()
						return
					}
					i := next
					next++
					verify := verifyBudget > 0
					if verify {
						verifyBudget--
						res.ReplaysChecked++
					}
					mu.Unlock()
					it := frontier[i]
					rs, err := w.call(req{H: it.h, DevOK: cfg.MaxDev < 0 || it.dev < cfg.MaxDev, Verify: verify})
					results[i] = rs
					errs[i] = err
				}
			}(w)
		}
		wg.Wait()
		var nextF []item
		for i := range frontier {
			if timedOut && i >= next {
				break
			}
			if errs[i] != nil {
				report.Fatal("config %s: %v (history %v)", cfg.Name, errs[i], frontier[i].h)
			}
			rs := results[i]
			if rs.Err != "" {
				report.Fatal("config %s: %s", cfg.Name, rs.Err)
			}
			for _, nd := range rs.Nondet {
				res.NondetTransitions++
				if len(res.NondetSamples) < 3 {
					res.NondetSamples = append(res.NondetSamples, nd)
				}
			}
			for _, s := range rs.Succ {
				res.Transitions++
				hist := append(append([]string{}, rs.Names...), s.Op)
				for _, v := range s.V {
					if v.Key == "" {
						v.Key = strings.Join(hist, " ; ")
					}
					if v.Replay == nil {
						v.Replay = map[string]any{"config": cfg.Name, "ops": hist}
					}
					v.Detail = "[" + cfg.Name + "] after " + strings.Join(hist, " ; ") + " :: " + v.Detail
					rep.Add(v)
				}
				if len(res.Samples) < 6 && len(hist) >= 2 && (res.Transitions%97 == 1 || len(res.Samples) == 0) {
					res.Samples = append(res.Samples, "["+cfg.Name+"] "+strings.Join(hist, " ; "))
				}
				if s.Dead || (len(s.V) > 0 && !cfg.ExpandViolating) {
					res.PrunedViolating++
					continue
				}
				nd := frontier[i].dev
				if s.Dev {
					nd++
				}
				if old, ok := visited[s.C]; ok && old <= nd && !cfg.NoDedup {
					continue
				}
				if _, ok := visited[s.C]; !ok {
					res.States++
				}
				visited[s.C] = nd
				nh := append(append(make([]int, 0, len(frontier[i].h)+1), frontier[i].h...), s.I)
				nextF = append(nextF, item{h: nh, dev: nd})
			}
		}
		if timedOut {
			res.CapHit = fmt.Sprintf("deadline during depth %d (%d of %d frontier states expanded)", depth+1, next, len(frontier))
			return res
		}
		res.DepthDone = depth + 1
		frontier = nextF
		if cfg.MaxStates > 0 && res.States > cfg.MaxStates {
			res.CapHit = fmt.Sprintf("state cap %d reached after depth %d", cfg.MaxStates, res.DepthDone)
			return res
		}
	}
	if len(frontier) == 0 {
		res.Fixpoint = true
	}
	res.Exhaustive = true
	return res
}

// ReplayOps re-executes a stored counterexample (op names) in-process, returning violations.
func ReplayOps(sys System, names []string, panicClause string) ([]report.Violation, error) {
	inst := sys.New()
	var last []report.Violation
	for _, n := range names {
		ops := sys.Ops(inst)
		found := false
		for _, op := range ops {
			if op.Name == n {
				v, dead := applyGuard(sys, inst, op, panicClause)
				last = v
				found = true
				if dead {
					return last, nil
				}
				break
			}
		}
		if !found {
			return nil, fmt.Errorf("op %q not enabled", n)
		}
	}
	// violations found by the per-state check (e.g. quiescence closure) belong to the last state
	if sc, ok := sys.(StateChecker); ok {
		last = append(last, sc.CheckState(inst)...)
	}
	return last, nil
}
