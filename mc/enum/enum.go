// Package enum runs bounded exhaustive input enumerations: the harness supplies the size of an
// indexed finite space (an odometer) and a function that evaluates case i; Range covers every
// index, in parallel, until done or until the deadline (then reports how far it got — a capped
// run is never called exhaustive).
package enum

import (
	"os"
	"runtime"
	"strconv"
	"sync"
	"sync/atomic"
	"time"
)

// Workers returns the degree of parallelism (VERIF_WORKERS overrides).
func Workers() int {
	if v, err := strconv.Atoi(os.Getenv("VERIF_WORKERS")); err == nil && v > 0 {
		return v
	}
	return runtime.NumCPU()
}

// Range calls f(i) for every i in [0,n) using Workers() goroutines, in index order per chunk.
// It stops handing out new chunks after the deadline. Returns how many indices were evaluated
// and whether all of them were (complete). The indices covered are always a prefix-closed set of
// chunks, completed = all chunks below `done` rounded to the chunk size.
func Range(n int64, deadline time.Time, f func(i int64)) (done int64, complete bool) {
	if n <= 0 {
		return 0, true
	}
	w := int64(Workers())
	chunk := n / (w * 64)
	if chunk < 1 {
		chunk = 1
	}
	if chunk > 4096 {
		chunk = 4096
	}
	var next, cnt int64
	var wg sync.WaitGroup
	for k := int64(0); k < w; k++ {
		wg.Add(1)
		go func() {
			defer wg.Done()
			for {
				if !deadline.IsZero() && time.Now().After(deadline) {
					return
				}
				lo := atomic.AddInt64(&next, chunk) - chunk
				if lo >= n {
					return
				}
				hi := lo + chunk
				if hi > n {
					hi = n
				}
				for i := lo; i < hi; i++ {
					f(i)
				}
				atomic.AddInt64(&cnt, hi-lo)
			}
		}()
	}
	wg.Wait()
	return cnt, cnt == n
}

// Odometer enumerates the cartesian product of digit domains: Decode(i) gives the digits of case i.
type Odometer struct{ Radix []int }

func (o Odometer) Size() int64 {
	s := int64(1)
	for _, r := range o.Radix {
		s *= int64(r)
	}
	return s
}
func (o Odometer) Decode(i int64) []int {
	d := make([]int, len(o.Radix))
	for k := len(o.Radix) - 1; k >= 0; k-- {
		r := int64(o.Radix[k])
		d[k] = int(i % r)
		i /= r
	}
	return d
}
