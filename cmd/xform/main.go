// xform builds the check-time source overlay. For each listed repository package it parses every
// non-test Go file *as it currently is in the repository* and, if the file imports one of the
// redirected packages (time, math/rand, optionally sync and sync/atomic) or contains go
// statements (optional), writes a rewritten copy and maps it in an overlay JSON for
// `go build -overlay`. Hook files from /verif/hooks/<pkg>/ are added to the package the same way.
// Any file that cannot be parsed is a hard error: never a silent skip.
package main

import (
	"bytes"
	"encoding/json"
	"flag"
	"fmt"
	"go/ast"
	"go/parser"
	"go/printer"
	"go/token"
	"os"
	"path/filepath"
	"strconv"
	"strings"
)

type multi []string

func (m *multi) String() string     { return strings.Join(*m, ",") }
func (m *multi) Set(v string) error { *m = append(*m, v); return nil }

func die(f string, a ...any) { fmt.Fprintf(os.Stderr, "xform: "+f+"\n", a...); os.Exit(2) }

func main() {
	repo := flag.String("repo", "/repo", "repository root")
	out := flag.String("out", "", "output directory for rewritten files + overlay.json")
	var hookDirs multi
	flag.Var(&hookDirs, "hooks", "hooks directory (mirrors repo package layout); may be repeated")
	timePkgs := flag.String("time", "", "comma separated package dirs whose time/math-rand imports are redirected")
	syncPkgs := flag.String("sync", "", "comma separated package dirs whose sync, sync/atomic imports and go statements are redirected")
	consts := flag.String("const", "", "comma separated dir:Name=value constant overrides (scaled models)")
	goPkgs := flag.String("gostmt", "", "comma separated package dirs whose go statements (only) are redirected to verif/shim/vsched")
	flag.Parse()
	if *out == "" {
		die("-out required")
	}
	os.MkdirAll(*out, 0o755)
	overlay := map[string]string{}

	set := func(s string) map[string]bool {
		m := map[string]bool{}
		for _, p := range strings.Split(s, ",") {
			if p = strings.TrimSpace(p); p != "" {
				m[p] = true
			}
		}
		return m
	}
	tp, sp, gp := set(*timePkgs), set(*syncPkgs), set(*goPkgs)
	type cov struct {
		name, val string
		done      bool
	}
	constOv := map[string][]*cov{}
	for c := range set(*consts) {
		i := strings.Index(c, ":")
		j := strings.Index(c, "=")
		if i < 0 || j < i {
			die("bad -const %q", c)
		}
		constOv[c[:i]] = append(constOv[c[:i]], &cov{name: c[i+1 : j], val: c[j+1:]})
	}
	all := map[string]bool{}
	for p := range tp {
		all[p] = true
	}
	for p := range sp {
		all[p] = true
	}
	for p := range constOv {
		all[p] = true
	}
	for p := range gp {
		all[p] = true
	}
	for pkg := range all {
		dir := filepath.Join(*repo, pkg)
		ents, err := os.ReadDir(dir)
		if err != nil {
			die("package %s: %v", pkg, err)
		}
		for _, e := range ents {
			n := e.Name()
			if e.IsDir() || !strings.HasSuffix(n, ".go") || strings.HasSuffix(n, "_test.go") {
				continue
			}
			src := filepath.Join(dir, n)
			fset := token.NewFileSet()
			f, err := parser.ParseFile(fset, src, nil, parser.ParseComments)
			if err != nil {
				die("parse %s: %v", src, err)
			}
			changed := false
			redirect := map[string]string{}
			if tp[pkg] {
				redirect["time"] = "verif/shim/vtime"
				redirect["math/rand"] = "verif/shim/vrand"
			}
			if sp[pkg] {
				redirect["sync"] = "verif/shim/vsync"
				redirect["sync/atomic"] = "verif/shim/vatomic"
			}
			for _, im := range f.Imports {
				p, _ := strconv.Unquote(im.Path.Value)
				if to, ok := redirect[p]; ok {
					local := filepath.Base(p)
					if im.Name != nil {
						local = im.Name.Name
					}
					im.Name = ast.NewIdent(local)
					im.Path.Value = strconv.Quote(to)
					changed = true
				}
			}
			if sp[pkg] || gp[pkg] {
				if rewriteGo(f) {
					changed = true
				}
			}
			for _, c := range constOv[pkg] {
				for _, d := range f.Decls {
					gd, ok := d.(*ast.GenDecl)
					if !ok || (gd.Tok != token.CONST && gd.Tok != token.VAR) {
						continue
					}
					for _, s := range gd.Specs {
						vs := s.(*ast.ValueSpec)
						for i, nm := range vs.Names {
							if nm.Name == c.name && i < len(vs.Values) {
								vs.Values[i] = &ast.BasicLit{Kind: token.INT, Value: c.val}
								c.done = true
								changed = true
							}
						}
					}
				}
			}
			if !changed {
				continue
			}
			var buf bytes.Buffer
			if err := printer.Fprint(&buf, fset, f); err != nil {
				die("print %s: %v", src, err)
			}
			dst := filepath.Join(*out, pkg, n)
			os.MkdirAll(filepath.Dir(dst), 0o755)
			if err := os.WriteFile(dst, buf.Bytes(), 0o644); err != nil {
				die("%v", err)
			}
			overlay[src] = dst
		}
	}
	for pkg, cs := range constOv {
		for _, c := range cs {
			if !c.done {
				die("constant %s not found in %s", c.name, pkg)
			}
		}
	}
	for _, hd := range hookDirs {
		hd := hd
		filepath.Walk(hd, func(p string, info os.FileInfo, err error) error {
			if err != nil || info.IsDir() || !strings.HasSuffix(p, ".go") {
				return nil
			}
			rel, _ := filepath.Rel(hd, p)
			overlay[filepath.Join(*repo, rel)] = p
			return nil
		})
	}
	b, _ := json.MarshalIndent(map[string]any{"Replace": overlay}, "", " ")
	if err := os.WriteFile(filepath.Join(*out, "overlay.json"), b, 0o644); err != nil {
		die("%v", err)
	}
}

// rewriteGo turns `go f(a, b)` into `vsched.Go(func() { f(a', b') })` with the arguments evaluated
// at the go statement, as the language requires. Returns true if anything changed.
func rewriteGo(f *ast.File) bool {
	changed := false
	var visitBlock func(list []ast.Stmt) []ast.Stmt
	counter := 0
	rewriteStmt := func(gs *ast.GoStmt) ast.Stmt {
		call := gs.Call
		var pre []ast.Stmt
		newArgs := make([]ast.Expr, len(call.Args))
		for i, a := range call.Args {
			counter++
			id := ast.NewIdent(fmt.Sprintf("vgoArg%d", counter))
			pre = append(pre, &ast.AssignStmt{Lhs: []ast.Expr{id}, Tok: token.DEFINE, Rhs: []ast.Expr{a}})
			newArgs[i] = id
		}
		fun := call.Fun
		// method value / function expression is evaluated at the go statement too
		if _, isLit := fun.(*ast.FuncLit); !isLit {
			counter++
			id := ast.NewIdent(fmt.Sprintf("vgoFn%d", counter))
			pre = append(pre, &ast.AssignStmt{Lhs: []ast.Expr{id}, Tok: token.DEFINE, Rhs: []ast.Expr{fun}})
			fun = id
		}
		inner := &ast.CallExpr{Fun: fun, Args: newArgs, Ellipsis: call.Ellipsis}
		lit := &ast.FuncLit{Type: &ast.FuncType{Params: &ast.FieldList{}}, Body: &ast.BlockStmt{List: []ast.Stmt{&ast.ExprStmt{X: inner}}}}
		spawn := &ast.ExprStmt{X: &ast.CallExpr{Fun: &ast.SelectorExpr{X: ast.NewIdent("vsched"), Sel: ast.NewIdent("Go")}, Args: []ast.Expr{lit}}}
		return &ast.BlockStmt{List: append(pre, spawn)}
	}
	visitBlock = func(list []ast.Stmt) []ast.Stmt {
		for i, s := range list {
			if gs, ok := s.(*ast.GoStmt); ok {
				list[i] = rewriteStmt(gs)
				changed = true
			}
		}
		return list
	}
	ast.Inspect(f, func(n ast.Node) bool {
		switch b := n.(type) {
		case *ast.BlockStmt:
			b.List = visitBlock(b.List)
		case *ast.CaseClause:
			b.Body = visitBlock(b.Body)
		case *ast.CommClause:
			b.Body = visitBlock(b.Body)
		case *ast.LabeledStmt:
			if gs, ok := b.Stmt.(*ast.GoStmt); ok {
				b.Stmt = rewriteStmt(gs)
				changed = true
			}
		}
		return true
	})
	if changed {
		// add import
		imp := &ast.ImportSpec{Path: &ast.BasicLit{Kind: token.STRING, Value: strconv.Quote("verif/shim/vsched")}}
		f.Imports = append(f.Imports, imp)
		gd := &ast.GenDecl{Tok: token.IMPORT, Specs: []ast.Spec{imp}}
		f.Decls = append([]ast.Decl{gd}, f.Decls...)
	}
	return changed
}
